"""
boot.py - make `import peptacular` resolve to /repo/src (the current working tree), fix the
hash seed, silence warnings deterministically.  Imported first by every entry point.
"""
import os
import sys

REPO = os.environ.get("VERIF_REPO", "/repo")
SRC = os.path.join(REPO, "src")
VERIF = os.path.dirname(os.path.dirname(os.path.abspath(__file__)))


def ensure_hashseed():
    """Re-exec once with PYTHONHASHSEED=0 so that set/dict-of-str iteration order inside the library is the same
    in every process (batch worker, fresh replay interpreter)."""
    want = os.environ.get("VERIF_HASHSEED", "0")
    if os.environ.get("PYTHONHASHSEED") != want:
        env = dict(os.environ)
        env["PYTHONHASHSEED"] = want
        os.execve(sys.executable, [sys.executable] + sys.argv, env)


def import_library():
    import warnings
    warnings.simplefilter("ignore")
    if SRC not in sys.path[:1]:
        sys.path.insert(0, SRC)
    # never write .pyc into /repo
    sys.dont_write_bytecode = True
    import peptacular as pt  # noqa
    f = os.path.realpath(pt.__file__)
    if not f.startswith(os.path.realpath(SRC) + os.sep):
        raise RuntimeError(f"peptacular imported from {f}, expected under {SRC}")
    warnings.simplefilter("ignore")
    return pt


def tree_id():
    import subprocess
    try:
        head = subprocess.run(["git", "-C", REPO, "rev-parse", "--short", "HEAD"], capture_output=True, text=True,
                              timeout=20).stdout.strip()
        dirty = subprocess.run(["git", "-C", REPO, "status", "--porcelain", "--", "src"], capture_output=True,
                               text=True, timeout=20).stdout.strip()
        return f"{head}+dirty:{1 if dirty else 0}"
    except Exception:  # pragma: no cover
        return "unknown"
