"""
world.py - building live pool objects from plan entries, restoring them in place, scribbling on results,
and the small fixed Specs used by the systematic (all ordered pairs) family.
"""
import os
import random

from sim import norm as N
from sim import spec as SP
from sim.kernel import HarnessError

_pt = None


def bind(pt):
    global _pt
    _pt = pt


def data_file(name):
    return os.path.join(os.path.dirname(_pt.__file__), 'data', name)


DB_FILES = {'UNIMOD_DB': 'unimod.obo', 'PSI_MOD_DB': 'psi-mod.obo', 'XLMOD_DB': 'xlmod.obo'}


def build_ann(entry):
    """entry: {'kind': 'ann', 'via': 'parse'|'create', 'spec': PepSpec}"""
    sp = entry['spec']
    if entry.get('via', 'parse') == 'parse':
        a = _pt.parse(SP.render(sp))
        if not isinstance(a, _pt.ProFormaAnnotation):
            raise HarnessError(f"spec did not build a single annotation: {SP.render(sp)!r}")
    else:
        nf = SP.nf_of_spec(sp)
        order = entry.get('order')
        if order:
            # same peptide, another storage order of the interval list / residue-mod dict
            f = dict(nf[1])
            if order.get('intervals') and f['intervals'] and len(order['intervals']) == len(f['intervals']):
                f['intervals'] = [f['intervals'][i] for i in order['intervals']]
            if order.get('internal') and f['internal']:
                by = {str(k): [k, v] for k, v in f['internal']}
                if sorted(by) == sorted(order['internal']):
                    f['internal'] = [by[k] for k in order['internal']]
            nf = ['ann', f]
        a = N.denorm(nf)
    d = N.same(N.norm(a), SP.nf_of_spec(sp))
    if d is not None:
        # the object is not what the Spec says (parser/serializer territory, C01) - do not build on sand
        raise BuildMismatch(f"build of {SP.render(sp)!r} via {entry.get('via')} differs from its Spec: {d}")
    return a


class BuildMismatch(Exception):
    pass


def build(entry, pool_live):
    k = entry['kind']
    if k == 'ann':
        return build_ann(entry)
    if k == 'str':
        return SP.render(entry['spec'])
    if k == 'nf':
        return N.denorm(entry['val'])
    if k == 'subann':
        # a sub-peptide of a pool annotation as a PARSED object of its own: the true slice [i, j), or its positional
        # isomer (one residue modification moved to another residue inside it) - what a search is asked to find
        a = build_ann({'kind': 'ann', 'via': 'parse', 'spec': entry['spec']})
        s = a.slice(entry['i'], entry['j'], inplace=False)
        if entry.get('move'):
            p, q = entry['move']
            mods = s.pop_internal_mod(p)
            if mods:
                s.add_internal_mod(q, mods, False)
        out = _pt.parse(s.serialize())
        if not isinstance(out, _pt.ProFormaAnnotation):
            raise HarnessError('sub-peptide did not parse to one annotation')
        return out
    if k == 'frags':
        a = build_ann({'kind': 'ann', 'via': 'parse', 'spec': entry['spec']})
        return _pt.fragment(a, entry['ion_types'], entry['charges'], isotopes=entry.get('isotopes', 0))
    if k == 'fmatches':
        a = build_ann({'kind': 'ann', 'via': 'parse', 'spec': entry['spec']})
        fr = _pt.fragment(a, entry['ion_types'], entry['charges'], isotopes=entry.get('isotopes', [0, 1]))
        mzs = sorted(f.mz for f in fr)
        sel = mzs[::2] or mzs
        return _pt.get_fragment_matches(fr, list(sel), [float(10 + i) for i in range(len(sel))], 0.01, 'th', 'all')
    raise HarnessError(f"unknown pool kind {k}")


def restore(obj, snap):
    """Put a live pool object back to the state of dump `snap`, in place (other holders keep their reference)."""
    pt = _pt
    if isinstance(obj, pt.ProFormaAnnotation):
        fresh = N.denorm(snap)
        obj.sequence = fresh.sequence
        obj.isotope_mods = fresh.isotope_mods
        obj.static_mods = fresh.static_mods
        obj.labile_mods = fresh.labile_mods
        obj.unknown_mods = fresh.unknown_mods
        obj.nterm_mods = fresh.nterm_mods
        obj.cterm_mods = fresh.cterm_mods
        obj.internal_mods = fresh.internal_mods
        obj.intervals = fresh.intervals
        obj.charge = fresh.charge
        obj.charge_adducts = fresh.charge_adducts
    elif isinstance(obj, list):
        obj[:] = N.denorm(snap)
    elif isinstance(obj, dict):
        fresh = N.denorm(snap)
        obj.clear()
        obj.update(fresh)
    elif isinstance(obj, pt.EnzymeConfig):
        fresh = N.denorm(snap)
        obj.regex, obj.missed_cleavages = fresh.regex, fresh.missed_cleavages
        obj.semi_enzymatic, obj.complete_digestion = fresh.semi_enzymatic, fresh.complete_digestion
    elif isinstance(obj, pt.Mod):
        fresh = N.denorm(snap)
        obj.val, obj.mult = fresh.val, fresh.mult
    elif isinstance(obj, pt.Interval):
        fresh = N.denorm(snap)
        obj.start, obj.end, obj.ambiguous, obj.mods = fresh.start, fresh.end, fresh.ambiguous, fresh.mods
    elif isinstance(obj, (str, tuple)):
        pass
    else:
        raise HarnessError(f"cannot restore {type(obj)}")


def scribble(res, k, pool_objs):
    """Edit one mutable node reachable from a returned value - something any client may do with its own result.
    Nodes shared (by identity) with a pool object are tried first: that only *aims* the edit; a violation is
    always an observed change of a pool object's dump.  Returns a description or None if nothing is editable."""
    pt = _pt
    nodes = N.mutable_nodes(res)
    if not nodes:
        return None
    pool_ids = set()
    for o in pool_objs:
        pool_ids.update(N.mutable_nodes(o).keys())
    shared = [v for i, v in nodes.items() if i in pool_ids]
    rest = [v for i, v in nodes.items() if i not in pool_ids]
    order = shared + rest
    node = order[k % len(order)] if not shared else shared[k % len(shared)]
    aimed = bool(shared)
    alt = (k // 7) % 2
    if isinstance(node, pt.ProFormaAnnotation):
        if alt:
            node.add_nterm_mods([pt.Mod('Scribble', 1)], append=True)
            how = 'ann.add_nterm_mods'
        else:
            node.charge = 7
            node.sequence = (node.sequence or '') + 'G'
            how = 'ann.sequence+charge'
    elif isinstance(node, pt.Mod):
        if alt:
            node.mult = node.mult + 1
            how = 'mod.mult'
        else:
            node.val = 'Scribbled'
            how = 'mod.val'
    elif isinstance(node, pt.Interval):
        node.end = node.end + 1
        node.mods = [pt.Mod('Scribble', 1)]
        how = 'interval'
    elif isinstance(node, list):
        if alt and node:
            del node[0]
            how = 'list.del'
        else:
            node.append(pt.Mod('Scribble', 1) if node and isinstance(node[0], pt.Mod) else 'Scribble')
            how = 'list.append'
    elif isinstance(node, dict):
        if alt and node:
            node.pop(next(iter(node)))
            how = 'dict.pop'
        else:
            node['__scribble__'] = 1
            how = 'dict.set'
    elif isinstance(node, set):
        if alt and node:
            node.pop()
            how = 'set.pop'
        else:
            node.add('__scribble__')
            how = 'set.add'
    elif isinstance(node, pt.EnzymeConfig):
        node.missed_cleavages += 1
        how = 'enzcfg'
    else:
        return None
    return how + ('/aimed' if aimed else '')


# ---------------------------------------------------------------------------------------------------------
# fixed all-features Specs for the systematic family (every ordered pair of catalogue ops on one shared object)

FIXED_SPECS = [
    # everything at once (no intervals/unknown so that fragmentation-type calls run)
    {'seq': 'PEKTIDERK', 'labile': [['Glycan:Hex', 1]], 'static': ['[57]@K', '[Acetyl]@N-Term'],
     'isotope': [], 'unknown': [], 'nterm': [['Acetyl', 1]], 'cterm': [['Amidated', 1]],
     'internal': {'2': [['Phospho', 1], [1, 2]], '8': [[15.9949, 1]]}, 'intervals': [], 'charge': 2,
     'adducts': None},
    # ambiguity: unknown-position + intervals at start / end, multipliers
    {'seq': 'MKPEPTRDE', 'labile': [[79.966331, 1]], 'static': [], 'isotope': [], 'unknown': [['Oxidation', 2]],
     'nterm': [[42.010565, 1]], 'cterm': [],
     'internal': {'0': [['Oxidation', 1]]}, 'intervals': [[0, 2, False, [['Phospho', 1]]], [6, 9, True, None]],
     'charge': None, 'adducts': None},
    # isotope labels + terminal static rule + charge with adducts
    {'seq': 'ACDKEFR', 'labile': [], 'static': ['[Formula:C2H3O]@C-Term,D'], 'isotope': ['13C', '15N'],
     'unknown': [], 'nterm': [], 'cterm': [['Methyl', 1]], 'internal': {'3': [['Formula:[13C2]H4', 1]]},
     'intervals': [], 'charge': 3, 'adducts': '+2Na+,+H+'},
    # short, heavily modified (combinatorics run to completion)
    {'seq': 'STY', 'labile': [['Phospho', 1], [1, 1]], 'static': [], 'isotope': [], 'unknown': [],
     'nterm': [[1, 1]], 'cterm': [[2, 1]], 'internal': {'0': [['Phospho', 1]], '2': [['Phospho', 1], [3.5, 1]]},
     'intervals': [], 'charge': -1, 'adducts': None},
    # plain residues with repeated letters, residue mods on equal letters, labile only
    {'seq': 'KKAKRKK', 'labile': [['Obs:+12.5', 1]], 'static': [], 'isotope': [], 'unknown': [], 'nterm': [],
     'cterm': [], 'internal': {'1': [[10, 1]], '5': [[20, 1]]}, 'intervals': [], 'charge': None,
     'adducts': None},
]
