"""registry.py - property id -> module"""
import importlib

MODS = {'C04': 'sim.props.c04', 'C07': 'sim.props.c07', 'C08': 'sim.props.c08', 'C11': 'sim.props.c11',
        'C20': 'sim.props.c20'}


def load(pid):
    m = importlib.import_module(MODS[pid])
    m.setup()
    return m
