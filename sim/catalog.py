"""
catalog.py - the op catalogue for the history properties: every public function / annotation method that accepts an
annotation, dict or list and is not an explicit in-place editor (DESIGN.md section 4, C08).

Each entry:  name -> Op(gen, call, flags)
  gen(S, W)   -> symbolic args {'argname': {'h': handle} | {'v': json literal} | {'nf': dump literal} |
                                            {'r': result handle, 'i': index}}  or None if preconditions are unmet
  call(pt, a) -> result (may be a lazy iterator)
  flags       : lazy        - result is a suspended computation
                exempt      - argument names exempt from the argument-unchanged invariant (explicit editors by name)
                rng         - consumes the caller's RNG by contract (no HIST / GLOBAL-random check)
                accessor    - returns live internal state by design (no ALIAS scribbling)

W (symbolic world): {'kinds': {kind: [handles]}, 'specs': {handle: PepSpec}, 'results': {rhandle: opname}}
"""
from sim import spec as SP


class Op:
    def __init__(self, name, gen, call, lazy=False, exempt=(), rng=False, accessor=False, weight=1.0, tags=()):
        self.name, self.gen, self.call = name, gen, call
        self.lazy, self.exempt, self.rng, self.accessor, self.weight = lazy, set(exempt), rng, accessor, weight
        self.tags = set(tags)


OPS = {}


def op(name, gen, call, **kw):
    OPS[name] = Op(name, gen, call, **kw)


# ------------------------------------------------------------------------------------------ arg helpers

def H(W, S, kind):
    hs = W['kinds'].get(kind) or []
    if not hs:
        return None
    return {'h': S.pick(hs)}


def HS(W, S, kind, p_str=0.3):
    """an argument documented as 'dictionary or its string form'"""
    if W['kinds'].get(kind + 'str') and S.coin(p_str):
        return H(W, S, kind + 'str')
    return H(W, S, kind)


def SEQ(W, S, p_str=0.1):
    """a sequence argument: mostly a shared annotation, sometimes the plain string"""
    if W['kinds'].get('str') and S.coin(p_str):
        return {'h': S.pick(W['kinds']['str'])}
    return H(W, S, 'ann')


def V(x):
    return {'v': x}


def seqlen(W, a):
    return len(W['specs'][a['h']]['seq'])


def ok(d):
    """drop the run of this op if any argument could not be produced"""
    if d is None or any(v is None for v in d.values()):
        return None
    return d


ION1 = ['a', 'b', 'c', 'x', 'y', 'z']
IONI = ['ax', 'ay', 'az', 'bx', 'by', 'bz', 'cx', 'cy', 'cz']
ALL_IONS = ION1 + IONI + ['i']
ENZ = ['trypsin', 'trypsin/P', 'lys-c', 'lys-n', 'asp-n', 'glu-c', 'arg-c', 'chymotrypsin', 'proteinase k',
       'non-specific', 'no-cleave', '([KR])', '(?=D)', '(?<=K)', 'proalanase', 'elastase']
DRT = ['str', 'annotation', 'span', 'str-span', 'annotation-span']
FRT = ['fragment', 'mass', 'mz', 'label', 'mass-label', 'mz-label']


def _span(W, S, a):
    n = seqlen(W, a)
    i = S.randint(0, n)
    j = S.randint(i, n)
    return {'nf': ['tuple', [i, j, 0]]}


def _size(W, S, a):
    n = seqlen(W, a)
    if n <= 4:
        return V(S.pick([None, 1, 2, n, n + 1]))
    if n <= 6:
        return V(S.pick([1, 2, 3]))
    return V(S.pick([1, 2]) if n <= 16 else 1)


def _ptype(S):
    return V(S.pick(['p', 'p', 'n', 'b', 'y', 'a', 'c', 'x', 'z', 'by', 'i']))


def _minmax(S):
    return S.pick([None, None, 1, 2, 4]), S.pick([None, None, 3, 6, 12])


# ------------------------------------------------------------------------------------------ sequence_funcs

def _simple(name, fn, **kw):
    op(name, lambda S, W: ok({'sequence': SEQ(W, S)}), fn, **kw)


_simple('sequence_length', lambda pt, a: pt.sequence_length(a['sequence']))
_simple('is_ambiguous', lambda pt, a: pt.is_ambiguous(a['sequence']))
_simple('is_modified', lambda pt, a: pt.is_modified(a['sequence']))
_simple('get_mods', lambda pt, a: pt.get_mods(a['sequence']), weight=2)
_simple('pop_mods', lambda pt, a: pt.pop_mods(a['sequence']), exempt=('sequence',))
_simple('strip_mods', lambda pt, a: pt.strip_mods(a['sequence']))
_simple('split', lambda pt, a: pt.split(a['sequence']), weight=2)
_simple('count_residues', lambda pt, a: pt.count_residues(a['sequence']), weight=2)
_simple('sort', lambda pt, a: pt.sort(a['sequence']))
_simple('condense_static_mods', lambda pt, a: pt.condense_static_mods(a['sequence']))
_simple('is_sequence_valid', lambda pt, a: pt.is_sequence_valid(a['sequence']))
_simple('count_aa', lambda pt, a: pt.count_aa(a['sequence']))
_simple('serialize', lambda pt, a: pt.serialize(a['sequence']) if not isinstance(a['sequence'], str) else a['sequence'])

op('reverse', lambda S, W: ok({'sequence': SEQ(W, S), 'swap_terms': V(S.coin())}),
   lambda pt, a: pt.reverse(a['sequence'], swap_terms=a['swap_terms']))
op('shuffle_seeded', lambda S, W: ok({'sequence': SEQ(W, S), 'seed': V(S.randint(0, 50))}),
   lambda pt, a: pt.shuffle(a['sequence'], seed=a['seed']))
op('shuffle_unseeded', lambda S, W: ok({'sequence': SEQ(W, S)}),
   lambda pt, a: pt.shuffle(a['sequence']), rng=True, weight=0.5)
op('shift', lambda S, W: ok({'sequence': SEQ(W, S), 'n': V(S.randint(-30, 30))}),
   lambda pt, a: pt.shift(a['sequence'], a['n']))


def _g_span_to_sequence(S, W):
    s = SEQ(W, S)
    return ok({'sequence': s, 'span': _span(W, S, s) if s else None})


op('span_to_sequence', _g_span_to_sequence, lambda pt, a: pt.span_to_sequence(a['sequence'], a['span']))


def _g_two(S, W):
    sub = H(W, S, 'subpep_ann') if S.coin(0.4) else None
    return ok({'subsequence': sub or SEQ(W, S, 0.2), 'sequence': SEQ(W, S, 0.2), 'order': V(S.coin(0.6))})


op('is_subsequence', _g_two, lambda pt, a: pt.is_subsequence(a['subsequence'], a['sequence'], a['order']))
op('find_subsequence_indices',
   lambda S, W: ok({'sequence': SEQ(W, S), 'subsequence': (H(W, S, 'subpep_ann') if S.coin(0.5) else None) or
                    H(W, S, 'subpep') or SEQ(W, S),
                    'ignore_mods': V(S.coin(0.3))}),
   lambda pt, a: pt.find_subsequence_indices(a['sequence'], a['subsequence'], ignore_mods=a['ignore_mods']),
   weight=2)
op('coverage',
   lambda S, W: ok({'sequence': SEQ(W, S), 'subsequences': H(W, S, 'subs'), 'accumulate': V(S.coin()),
                    'ignore_mods': V(S.coin(0.3))}),
   lambda pt, a: pt.coverage(a['sequence'], a['subsequences'], a['accumulate'], a['ignore_mods']))
op('percent_coverage',
   lambda S, W: ok({'sequence': SEQ(W, S), 'subsequences': H(W, S, 'subs'), 'ignore_mods': V(S.coin(0.3))}),
   lambda pt, a: pt.percent_coverage(a['sequence'], a['subsequences'], a['ignore_mods']))
op('add_mods',
   lambda S, W: ok({'sequence': SEQ(W, S, 0.5), 'mods': H(W, S, 'moddict'), 'append': V(S.coin(0.7))}),
   lambda pt, a: pt.add_mods(a['sequence'], a['mods'], append=a['append']), exempt=('sequence',), weight=1.5)

# ------------------------------------------------------------------------------------------ combinatoric


def _g_comb(S, W):
    s = H(W, S, 'shortann') or SEQ(W, S)
    return ok({'sequence': s, 'size': _size(W, S, s) if s else None})


op('permutations', _g_comb, lambda pt, a: pt.permutations(a['sequence'], a['size']), weight=1.5)
op('product', _g_comb, lambda pt, a: pt.product(a['sequence'], a['size']))
op('combinations', _g_comb, lambda pt, a: pt.combinations(a['sequence'], a['size']))
op('combinations_with_replacement', _g_comb,
   lambda pt, a: pt.combinations_with_replacement(a['sequence'], a['size']))

# ------------------------------------------------------------------------------------------ mod_builder

MODES = ['skip', 'append', 'overwrite']


def _g_static(S, W):
    return ok({'sequence': SEQ(W, S), 'internal_mods': H(W, S, 'smods'),
               'nterm_mods': H(W, S, 'tmods') if S.coin(0.5) else V(None),
               'cterm_mods': H(W, S, 'tmods') if S.coin(0.4) else V(None),
               'mode': V(S.pick(MODES)), 'return_type': V(S.pick(['str', 'annotation']))})


op('apply_static_mods', _g_static,
   lambda pt, a: pt.apply_static_mods(a['sequence'], a['internal_mods'], a['nterm_mods'], a['cterm_mods'],
                                      a['mode'], a['return_type']), weight=2)


def _g_var(S, W):
    seq = H(W, S, 'shortann') if S.coin(0.6) and W['kinds'].get('shortann') else SEQ(W, S)
    if seq is None:
        return None
    # in append/overwrite mode re-modifying a modified residue is not counted against max_mods, so the number of
    # forms is exponential in the number of matching sites: keep those modes to short peptides
    small = seqlen(W, seq) <= 6
    return ok({'sequence': seq,
               'internal_mods': H(W, S, 'vmods'), 'max_mods': V(S.pick([0, 0, 1, 1, 2]) if small else S.pick([0, 1])),
               'nterm_mods': H(W, S, 'tmods') if S.coin(0.4) else V(None),
               'cterm_mods': H(W, S, 'tmods') if S.coin(0.3) else V(None),
               'mode': V(S.pick(MODES) if small else 'skip'), 'return_type': V(S.pick(['str', 'annotation']))})


op('apply_variable_mods', _g_var,
   lambda pt, a: pt.apply_variable_mods(a['sequence'], a['internal_mods'], a['max_mods'], a['nterm_mods'],
                                        a['cterm_mods'], a['mode'], a['return_type']), weight=2)

# ------------------------------------------------------------------------------------------ mass_calc


def _g_mass(S, W):
    return ok({'sequence': SEQ(W, S), 'charge': V(S.pick([None, None, 0, 1, 2, -1])), 'ion_type': _ptype(S),
               'monoisotopic': V(S.coin(0.7)), 'isotope': V(S.pick([0, 0, 1, 2])),
               'loss': V(S.pick([0.0, 0.0, -18.01056])),
               'charge_adducts': V(S.pick([None, None, None, '+Na+', '+2H+'])),
               'isotope_mods': H(W, S, 'isolist') if S.coin(0.2) else V(None),
               'precision': V(S.pick([None, None, 3, 6]))})


op('mass', _g_mass,
   lambda pt, a: pt.mass(a['sequence'], a['charge'], a['ion_type'], a['monoisotopic'], a['isotope'], a['loss'],
                         a['charge_adducts'], a['isotope_mods'], False, a['precision']), weight=3)
op('mz', _g_mass,
   lambda pt, a: pt.mz(a['sequence'], a['charge'], a['ion_type'], a['monoisotopic'], a['isotope'], a['loss'],
                       a['charge_adducts'], a['isotope_mods'], a['precision']), weight=1.5)


def _g_comp(S, W):
    return ok({'sequence': SEQ(W, S), 'ion_type': _ptype(S), 'estimate_delta': V(S.coin(0.7)),
               'charge': V(S.pick([None, None, 1, 2])), 'isotope': V(S.pick([0, 0, 1])),
               'charge_adducts': V(S.pick([None, None, '+Na+'])),
               'isotope_mods': H(W, S, 'isolist') if S.coin(0.25) else V(None),
               'use_isotope_on_mods': V(S.coin(0.2))})


op('comp', _g_comp,
   lambda pt, a: pt.comp(a['sequence'], a['ion_type'], a['estimate_delta'], a['charge'], a['isotope'],
                         a['charge_adducts'], a['isotope_mods'], a['use_isotope_on_mods']), weight=2)
op('comp_mass', _g_comp,
   lambda pt, a: pt.comp_mass(a['sequence'], a['ion_type'], a['charge'], a['isotope'], a['charge_adducts'],
                              a['isotope_mods'], a['use_isotope_on_mods']), weight=2)
op('mod_mass', lambda S, W: ok({'mod': H(W, S, 'modlist'), 'monoisotopic': V(S.coin(0.7))}),
   lambda pt, a: pt.mod_mass(a['mod'], a['monoisotopic']))
op('condense_to_mass_mods',
   lambda S, W: ok({'sequence': SEQ(W, S), 'include_plus': V(S.coin(0.3)), 'precision': V(S.pick([6, 3, 8]))}),
   lambda pt, a: pt.condense_to_mass_mods(a['sequence'], a['include_plus'], a['precision']), weight=2)
op('glycan_mass', lambda S, W: ok({'formula': HS(W, S, 'gcomp'), 'monoisotopic': V(S.coin(0.7))}),
   lambda pt, a: pt.glycan_mass(a['formula'], a['monoisotopic']))
op('glycan_mz', lambda S, W: ok({'formula': HS(W, S, 'gcomp'), 'charge': V(S.pick([1, 2]))}),
   lambda pt, a: pt.glycan_mz(a['formula'], a['charge']))
op('chem_mz', lambda S, W: ok({'formula': HS(W, S, 'comp'), 'charge': V(S.pick([1, 2]))}),
   lambda pt, a: pt.chem_mz(a['formula'], a['charge']))

# ------------------------------------------------------------------------------------------ chem / glycan

op('chem_mass', lambda S, W: ok({'formula': HS(W, S, 'comp'), 'monoisotopic': V(S.coin(0.7))}),
   lambda pt, a: pt.chem_mass(a['formula'], a['monoisotopic']))
op('write_chem_formula',
   lambda S, W: ok({'composition': H(W, S, 'comp'), 'sep': V(S.pick(['', ' '])), 'hill_order': V(S.coin())}),
   lambda pt, a: pt.write_chem_formula(a['composition'], a['sep'], a['hill_order']))
op('apply_isotope_mods_to_composition',
   lambda S, W: ok({'composition': HS(W, S, 'comp'), 'isotopic_mods': H(W, S, 'isolist')}),
   lambda pt, a: pt.apply_isotope_mods_to_composition(a['composition'], a['isotopic_mods']))
op('mod_comp', lambda S, W: ok({'mod': V(S.pick(SP.UNIMOD + SP.FORMULA + SP.GLYCAN + SP.ACC))}),
   lambda pt, a: pt.mod_comp(a['mod']), weight=0.5)
op('estimate_comp',
   lambda S, W: ok({'neutral_mass': V(S.pick([500.25, 1234.5, 80.0])),
                    'isotopic_mods': H(W, S, 'isolist') if S.coin(0.5) else V(None)}),
   lambda pt, a: pt.estimate_comp(a['neutral_mass'], a['isotopic_mods']))
op('glycan_comp', lambda S, W: ok({'glycan': HS(W, S, 'gcomp')}), lambda pt, a: pt.glycan_comp(a['glycan']))
op('write_glycan_formula', lambda S, W: ok({'glycan_dict': H(W, S, 'gcomp')}),
   lambda pt, a: pt.write_glycan_formula(a['glycan_dict']))
op('convert_glycan_formula_to_chem_formula', lambda S, W: ok({'glycan': HS(W, S, 'gcomp')}),
   lambda pt, a: pt.convert_glycan_formula_to_chem_formula(a['glycan']))
op('glycan_to_chem', lambda S, W: ok({'glycan': HS(W, S, 'gcomp')}), lambda pt, a: pt.glycan_to_chem(a['glycan']))

# ------------------------------------------------------------------------------------------ isotope


def _g_iso(S, W):
    return ok({'chemical_formula': H(W, S, 'comp'), 'max_isotopes': V(S.pick([None, 3, 5])),
               'min_abundance_threshold': V(S.pick([None, 0.0, 0.001])),
               'distribution_resolution': V(S.pick([5, 2, 0])), 'use_neutron_count': V(S.coin(0.3))})


op('isotopic_distribution', _g_iso,
   lambda pt, a: pt.isotopic_distribution(a['chemical_formula'], a['max_isotopes'], a['min_abundance_threshold'],
                                          a['distribution_resolution'], a['use_neutron_count']), weight=2)
op('merge_isotopic_distributions', lambda S, W: ok({'d1': H(W, S, 'dist'), 'd2': H(W, S, 'dist')}),
   lambda pt, a: pt.merge_isotopic_distributions(a['d1'], a['d2']))
op('estimate_isotopic_distribution',
   lambda S, W: ok({'neutral_mass': V(S.pick([500.25, 1234.5])), 'max_isotopes': V(S.pick([3, 5]))}),
   lambda pt, a: pt.estimate_isotopic_distribution(a['neutral_mass'], a['max_isotopes']), weight=0.3)

# ------------------------------------------------------------------------------------------ digestion (lazy)


def _enz(S, W):
    """an enzyme rule; most of the time the run's sticky one, so that different calls of a run meet on the same
    (sequence, rule) - what a process-wide cache keyed on them needs in order to be observed"""
    st = (W.get('sticky') or {}).get('enzyme')
    if st is not None and S.coin(0.65):
        return st
    return S.pick(ENZ)


def _g_digest(S, W):
    mn, mx = _minmax(S)
    enz = _enz(S, W)
    if S.coin(0.15):
        enz = [_enz(S, W), S.pick(ENZ)]
    return ok({'sequence': SEQ(W, S), 'enzyme_regex': V(enz) if S.coin(0.85) else H(W, S, 'regexes'),
               'missed_cleavages': V(S.pick([0, 0, 1, 2, 3])), 'semi': V(S.coin(0.25)), 'min_len': V(mn),
               'max_len': V(mx), 'complete_digestion': V(S.coin(0.8)), 'return_type': V(S.pick(DRT)),
               'sort_output': V(S.coin(0.8))})


op('digest', _g_digest,
   lambda pt, a: pt.digest(a['sequence'], a['enzyme_regex'], a['missed_cleavages'], a['semi'], a['min_len'],
                           a['max_len'], a['complete_digestion'], a['return_type'], a['sort_output']),
   lazy=True, weight=4)
op('digest_from_config',
   lambda S, W: ok({'sequence': SEQ(W, S), 'config': H(W, S, 'enz'), 'return_type': V(S.pick(DRT))}),
   lambda pt, a: pt.digest_from_config(a['sequence'], a['config'], return_type=a['return_type']), lazy=True)
op('sequential_digest',
   lambda S, W: ok({'sequence': SEQ(W, S), 'enzyme_configs': H(W, S, 'enzs'), 'return_type': V(S.pick(DRT))}),
   lambda pt, a: pt.sequential_digest(a['sequence'], a['enzyme_configs'], return_type=a['return_type']),
   lazy=True, weight=1.5)


def _g_semi(S, W):
    mn, mx = _minmax(S)
    return ok({'sequence': SEQ(W, S), 'min_len': V(mn), 'max_len': V(mx), 'return_type': V(S.pick(DRT))})


op('get_left_semi_enzymatic_sequences', _g_semi,
   lambda pt, a: pt.get_left_semi_enzymatic_sequences(a['sequence'], a['min_len'], a['max_len'],
                                                      a['return_type']), lazy=True)
op('get_right_semi_enzymatic_sequences', _g_semi,
   lambda pt, a: pt.get_right_semi_enzymatic_sequences(a['sequence'], a['min_len'] or 1, a['max_len'],
                                                       a['return_type']), lazy=True)
op('get_semi_enzymatic_sequences', _g_semi,
   lambda pt, a: pt.get_semi_enzymatic_sequences(a['sequence'], a['min_len'] or 1, a['max_len'],
                                                 a['return_type']), lazy=True)
op('get_non_enzymatic_sequences', _g_semi,
   lambda pt, a: pt.get_non_enzymatic_sequences(a['sequence'], a['min_len'], a['max_len'], a['return_type']),
   lazy=True)
op('get_cleavage_sites', lambda S, W: ok({'sequence': SEQ(W, S), 'enzyme_regex': V(_enz(S, W))}),
   lambda pt, a: pt.get_cleavage_sites(a['sequence'], a['enzyme_regex']), lazy=True)
op('build_spans',
   lambda S, W: ok({'max_index': V(S.pick([8, 12])), 'enzyme_sites': H(W, S, 'sites'),
                    'missed_cleavages': V(S.pick([0, 1, 2])), 'semi': V(S.coin(0.3))}),
   lambda pt, a: pt.build_spans(a['max_index'], a['enzyme_sites'], a['missed_cleavages'], None, None, a['semi']),
   lazy=True, weight=0.5)
op('build_semi_spans', lambda S, W: ok({'spans': H(W, S, 'spanlist')}),
   lambda pt, a: pt.build_semi_spans(a['spans']), lazy=True, weight=0.5)
op('build_enzymatic_spans',
   lambda S, W: ok({'max_index': V(S.pick([8, 12])), 'enzyme_sites': H(W, S, 'sites'),
                    'missed_cleavages': V(S.pick([0, 1, 2])), 'min_len': V(S.pick([None, 2])),
                    'max_len': V(S.pick([None, 6]))}),
   lambda pt, a: pt.build_enzymatic_spans(a['max_index'], a['enzyme_sites'], a['missed_cleavages'], a['min_len'],
                                          a['max_len']), lazy=True, weight=0.5)
op('build_left_semi_spans', lambda S, W: ok({'span': {'nf': ['tuple', [S.randint(0, 3), S.randint(5, 12), 0]]},
                                             'min_len': V(S.pick([None, 1, 2])), 'max_len': V(S.pick([None, 4]))}),
   lambda pt, a: pt.build_left_semi_spans(a['span'], a['min_len'], a['max_len']), lazy=True, weight=0.4)
op('build_right_semi_spans', lambda S, W: ok({'span': {'nf': ['tuple', [S.randint(0, 3), S.randint(5, 12), 0]]},
                                              'min_len': V(S.pick([1, 2])), 'max_len': V(S.pick([None, 4]))}),
   lambda pt, a: pt.build_right_semi_spans(a['span'], a['min_len'], a['max_len']), lazy=True, weight=0.4)
op('build_non_enzymatic_spans', lambda S, W: ok({'span': {'nf': ['tuple', [0, S.randint(2, 7), 0]]},
                                                 'min_len': V(S.pick([None, 1, 2])), 'max_len': V(S.pick([None, 3]))}),
   lambda pt, a: pt.build_non_enzymatic_spans(a['span'], a['min_len'], a['max_len']), lazy=True, weight=0.4)
op('get_regex_match_indices',
   lambda S, W: ok({'input_str': V(S.pick(['PEPTIDEKRPEK', 'KKRRKK', 'DADAD'])),
                    'regex_str': V(S.pick(['K', '(?<=K)', 'P[ST]', 'KK', '(?=D)'])), 'offset': V(S.pick([0, 0, 3]))}),
   lambda pt, a: pt.get_regex_match_indices(a['input_str'], a['regex_str'], a['offset']), lazy=True, weight=0.4)
op('get_regex_match_range',
   lambda S, W: ok({'input_str': V(S.pick(['PEPTIDEKRPEK', 'KKRRKK'])), 'regex_str': V(S.pick(['K', 'P[ST]', 'KK']))}),
   lambda pt, a: pt.get_regex_match_range(a['input_str'], a['regex_str']), weight=0.3)
op('calculate_span_coverage',
   lambda S, W: ok({'spans': H(W, S, 'spanlist'), 'max_index': V(12), 'accumulate': V(S.coin())}),
   lambda pt, a: pt.calculate_span_coverage(a['spans'], a['max_index'], a['accumulate']), weight=0.5)

# ------------------------------------------------------------------------------------------ fragmentation


def _g_frag(S, W, seq=True):
    its = S.sample(ION1, S.randint(1, 2)) + ([S.pick(IONI)] if S.coin(0.2) else []) + (['i'] if S.coin(0.15) else [])
    d = {'ion_types': V(its if S.coin(0.8) else its[0]) if S.coin(0.8) else H(W, S, 'ions'),
         'charges': V(S.pick([1, 2, [1, 2], [1, 3]])) if S.coin(0.8) else H(W, S, 'charges'),
         'isotopes': V(S.pick([0, 0, [0, 1], 1])),
         'water_loss': V(S.coin(0.3)), 'ammonia_loss': V(S.coin(0.3)),
         'losses': H(W, S, 'losses') if S.coin(0.5) else V(None), 'max_losses': V(S.pick([1, 1, 2])),
         'return_type': V(S.pick(FRT + ['fragment'] * 3)), 'precision': V(S.pick([None, None, 4]))}
    if seq:
        d['sequence'] = SEQ(W, S)
        d['monoisotopic'] = V(S.coin(0.7))
    return ok(d)


op('fragment', _g_frag,
   lambda pt, a: pt.fragment(a['sequence'], a['ion_types'], a['charges'], a['monoisotopic'], a['isotopes'],
                             a['water_loss'], a['ammonia_loss'], a['losses'], a['max_losses'], a['return_type'],
                             a['precision']), weight=5)
op('Fragmenter.new', lambda S, W: ok({'sequence': SEQ(W, S), 'monoisotopic': V(S.coin(0.7))}),
   lambda pt, a: pt.Fragmenter(a['sequence'], a['monoisotopic']), weight=2, tags=('mk_fragmenter',))


def _g_fragmenter_fragment(S, W):
    rs = [r for r, o in W['results'].items() if o == 'Fragmenter.new']
    if not rs:
        return None
    d = _g_frag(S, W, seq=False)
    if d is None:
        return None
    d['self'] = {'r': S.pick(rs)}
    return d


op('Fragmenter.fragment', _g_fragmenter_fragment,
   lambda pt, a: a['self'].fragment(a['ion_types'], a['charges'], a['isotopes'], a['water_loss'], a['ammonia_loss'],
                                    a['losses'], a['max_losses'], a['return_type'], a['precision']), weight=4)


def _g_frag_of(S, W):
    rs = [r for r, o in W['results'].items() if o in ('fragment',)]
    if not rs:
        return None
    return {'frag': {'r': S.pick(rs), 'i': S.randint(0, 40)}, 'touch': V(S.pick(['none', 'label', 'number', 'both']))}


def _c_frag_to_dict(pt, a):
    f = a['frag']
    if not isinstance(f, pt.Fragment):
        return None
    if a['touch'] in ('label', 'both'):
        f.label
    if a['touch'] in ('number', 'both'):
        f.number
    return f.to_dict()


op('Fragment.to_dict', _g_frag_of, _c_frag_to_dict)

# ------------------------------------------------------------------------------------------ score


def _g_fm(S, W):
    return ok({'fragments': H(W, S, 'frags'), 'mz_spectra': H(W, S, 'mz'), 'intensity_spectra': H(W, S, 'inten'),
               'tolerance_value': V(S.pick([0.02, 0.5, 20.0])), 'tolerance_type': V(S.pick(['th', 'ppm'])),
               'mode': V(S.pick(['all', 'closest', 'largest']))})


op('get_fragment_matches', _g_fm,
   lambda pt, a: pt.get_fragment_matches(a['fragments'], a['mz_spectra'], a['intensity_spectra'],
                                         a['tolerance_value'], a['tolerance_type'], a['mode']), weight=2)
op('get_match_coverage', lambda S, W: ok({'fragment_matches': H(W, S, 'fmatches')}),
   lambda pt, a: pt.get_match_coverage(a['fragment_matches']))
op('filter_missing_mono_isotope', lambda S, W: ok({'fragment_matches': H(W, S, 'fmatches')}),
   lambda pt, a: pt.filter_missing_mono_isotope(a['fragment_matches']))
op('filter_skipped_isotopes', lambda S, W: ok({'fragment_matches': H(W, S, 'fmatches')}),
   lambda pt, a: pt.filter_skipped_isotopes(a['fragment_matches']))
op('binomial_score',
   # both documented forms of `fragments`: Fragment objects or a plain list of m/z values
   lambda S, W: ok({'fragments': H(W, S, 'frags') if S.coin(0.5) else H(W, S, 'mz'), 'mz_spectra': H(W, S, 'mz'),
                    'tolerance_value': V(S.pick([0.02, 0.5])), 'tolerance_type': V(S.pick(['th', 'ppm']))}),
   lambda pt, a: pt.binomial_score(a['fragments'], a['mz_spectra'], a['tolerance_value'], a['tolerance_type']))
op('get_matched_intensity_percentage',
   lambda S, W: ok({'fragment_matches': H(W, S, 'fmatches'), 'intensities': H(W, S, 'inten')}),
   lambda pt, a: pt.get_matched_intensity_percentage(a['fragment_matches'], a['intensities']), weight=0.3)
op('match_spectra',
   lambda S, W: ok({'fragments': H(W, S, 'mz'), 'mz_spectra': H(W, S, 'mz'),
                    'tolerance_value': V(S.pick([0.02, 0.5, 20.0])), 'tolerance_type': V(S.pick(['th', 'ppm'])),
                    'mode': V(S.pick(['all', 'closest', 'largest'])), 'intensity_spectra': H(W, S, 'inten')}),
   lambda pt, a: pt.match_spectra(a['fragments'], a['mz_spectra'], a['tolerance_value'], a['tolerance_type'],
                                  a['mode'], a['intensity_spectra']))
op('get_matched_indices',
   lambda S, W: ok({'a': H(W, S, 'mz'), 'b': H(W, S, 'mz'), 'tolerance_value': V(S.pick([0.02, 0.5]))}),
   lambda pt, a: pt.get_matched_indices(a['a'], a['b'], a['tolerance_value'], 'th'), weight=0.5)

# ------------------------------------------------------------------------------------------ parser helpers

op('parse_static_mods', lambda S, W: ok({'mods': H(W, S, 'staticlist')}),
   lambda pt, a: pt.parse_static_mods(a['mods']))
op('parse_isotope_mods', lambda S, W: ok({'mods': H(W, S, 'isolist')}),
   lambda pt, a: pt.parse_isotope_mods(a['mods']))
op('write_static_mods', lambda S, W: ok({'mods': H(W, S, 'staticdict')}),
   lambda pt, a: pt.write_static_mods(a['mods']))
op('write_isotope_mods', lambda S, W: ok({'mods': V({'C': '13C', 'N': '15N'})}),
   lambda pt, a: pt.write_isotope_mods(a['mods']), weight=0.3)
op('parse_charge_adducts', lambda S, W: ok({'mod': V(S.pick(SP.ADDUCTS))}),
   lambda pt, a: pt.parse_charge_adducts(a['mod']), weight=0.3)
op('write_charge_adducts', lambda S, W: ok({'d': V({'Na+': 2, 'H+': 1})}),
   lambda pt, a: pt.write_charge_adducts(a['d']), weight=0.3)


def _g_create(S, W):
    d = {'sequence': V(S.pick(['PEPTIDE', 'ACDK', 'STY']))}
    for k in ('labile_mods', 'unknown_mods', 'nterm_mods', 'cterm_mods'):
        d[k] = H(W, S, 'modlist') if S.coin(0.4) else V(None)
    d['isotope_mods'] = H(W, S, 'isolist') if S.coin(0.3) else V(None)
    d['static_mods'] = H(W, S, 'staticlist') if S.coin(0.3) else V(None)
    d['internal_mods'] = H(W, S, 'intdict') if S.coin(0.5) else V(None)
    d['intervals'] = H(W, S, 'ivlist') if S.coin(0.4) else V(None)
    return ok(d)


op('create_annotation', _g_create,
   lambda pt, a: pt.create_annotation(a['sequence'], a['isotope_mods'], a['static_mods'], a['labile_mods'],
                                      a['unknown_mods'], a['nterm_mods'], a['cterm_mods'], a['internal_mods'],
                                      a['intervals'], None, None), weight=3)
op('create_multi_annotation',
   lambda S, W: ok({'a': H(W, S, 'ann'), 'b': H(W, S, 'ann')}),
   lambda pt, a: pt.create_multi_annotation([a['a'], a['b']], [False]).serialize(), weight=0.3)

# input_convert helpers are public API
op('fix_list_of_mods', lambda S, W: ok({'mods': H(W, S, 'modlist')}), lambda pt, a: pt.fix_list_of_mods(a['mods']))
op('fix_dict_of_mods', lambda S, W: ok({'mods': H(W, S, 'intdict')}), lambda pt, a: pt.fix_dict_of_mods(a['mods']))
op('fix_intervals_input', lambda S, W: ok({'intervals': H(W, S, 'ivlist')}),
   lambda pt, a: pt.fix_intervals_input(a['intervals']))
op('fix_list_of_list_of_mods', lambda S, W: ok({'mods': H(W, S, 'modlist')}),
   lambda pt, a: pt.fix_list_of_list_of_mods(a['mods']), weight=0.5)

# ------------------------------------------------------------------------------------------ annotation methods


def _m(name, fn, gen=None, **kw):
    g = gen or (lambda S, W: ok({'self': H(W, S, 'ann')}))
    op('ann.' + name, g, fn, **kw)


_m('dict', lambda pt, a: a['self'].dict(), weight=2)
_m('mod_dict', lambda pt, a: a['self'].mod_dict(), weight=2)
_m('copy', lambda pt, a: a['self'].copy(), weight=2)
# the copies a client makes without the library's help (whatever the library keeps on the instance travels along)
_m('py_deepcopy', lambda pt, a: __import__('copy').deepcopy(a['self']))
_m('py_pickle', lambda pt, a: __import__('pickle').loads(__import__('pickle').dumps(a['self'])))
_m('strip', lambda pt, a: a['self'].strip(inplace=False))
_m('condense_static_mods', lambda pt, a: a['self'].condense_static_mods(inplace=False))
_m('count_residues', lambda pt, a: a['self'].count_residues(), weight=2)
_m('split', lambda pt, a: a['self'].split(), lazy=True, weight=3)
_m('serialize', lambda pt, a: a['self'].serialize(include_plus=True))
_m('serialize_parts',
   lambda pt, a: (a['self'].serialize_start(), a['self'].serialize_middle(), a['self'].serialize_end()))
_m('has_mods', lambda pt, a: (a['self'].has_mods(), a['self'].has_labile_mods(), a['self'].has_internal_mods(),
                             a['self'].count_internal_mods(), a['self'].count_modified_residues(),
                             a['self'].contains_sequence_ambiguity(), a['self'].contains_residue_ambiguity(),
                             a['self'].contains_mass_ambiguity(), len(a['self'])))
_m('repr', lambda pt, a: repr(a['self']))
_m('eq', lambda pt, a: (a['self'] == a['other'], a['other'] == a['self']),
   gen=lambda S, W: ok({'self': H(W, S, 'ann'), 'other': H(W, S, 'ann')}))


def _g_slice(S, W):
    s = H(W, S, 'ann')
    if s is None:
        return None
    n = seqlen(W, s)
    i = S.randint(0, n)
    return {'self': s, 'start': V(i if S.coin(0.9) else None), 'stop': V(S.randint(i, n) if S.coin(0.9) else None)}


_m('slice', lambda pt, a: a['self'].slice(a['start'], a['stop'], inplace=False), gen=_g_slice, weight=2)
def _g_mshift(S, W):
    # a quarter of the shifts are whole turns (0, +-length, twice the length): nothing moves - and what comes back
    # must still be a peptide of its own
    s = H(W, S, 'ann')
    if s is None:
        return None
    n = seqlen(W, s)
    return ok({'self': s, 'n': V(S.pick([0, n, -n, 2 * n]) if S.coin(0.25) else S.randint(-30, 30))})


_m('shift', lambda pt, a: a['self'].shift(a['n'], inplace=False), gen=_g_mshift)
_m('shuffle_seeded', lambda pt, a: a['self'].shuffle(a['seed'], inplace=False),
   gen=lambda S, W: ok({'self': H(W, S, 'ann'), 'seed': V(S.randint(0, 50))}), weight=1.5)
_m('reverse', lambda pt, a: a['self'].reverse(inplace=False, swap_terms=a['swap_terms']),
   gen=lambda S, W: ok({'self': H(W, S, 'ann'), 'swap_terms': V(S.coin())}), weight=1.5)
_m('sort_residues', lambda pt, a: a['self'].sort_residues(inplace=False))


def _g_mcomb(S, W):
    s = H(W, S, 'shortann') or H(W, S, 'ann')
    return ok({'self': s, 'size': _size(W, S, s) if s else None})


_m('permutations', lambda pt, a: a['self'].permutations(a['size']), gen=_g_mcomb)
_m('product', lambda pt, a: a['self'].product(a['size']), gen=_g_mcomb)
_m('combinations', lambda pt, a: a['self'].combinations(a['size']), gen=_g_mcomb)
_m('combinations_with_replacement', lambda pt, a: a['self'].combinations_with_replacement(a['size']), gen=_g_mcomb)
_m('is_subsequence', lambda pt, a: a['self'].is_subsequence(a['other']),
   gen=lambda S, W: ok({'self': H(W, S, 'subpep_ann') or H(W, S, 'ann'), 'other': H(W, S, 'ann')}))
_m('find_indices', lambda pt, a: a['self'].find_indices(a['other']),
   gen=lambda S, W: ok({'self': H(W, S, 'subpep_ann') or H(W, S, 'ann'), 'other': H(W, S, 'ann')}))


# ------------------------------------------------------------------------------------------ explicit editors
# Explicit in-place editors of a shared annotation (exempt from the argument-unchanged invariant on `self`). They are
# in the catalogue because of what must hold AFTER them: every later query on the edited object must return what a
# fresh object with the same content returns (a per-object cache that the editor forgot to invalidate shows here).

EDITORS = []


def _ed(name, fn, gen=None, **kw):
    g = gen or (lambda S, W: ok({'self': H(W, S, 'ann')}))
    op('ed.' + name, g, fn, exempt=('self',), weight=kw.pop('weight', 0.35), tags=('editor',), **kw)
    EDITORS.append('ed.' + name)


def _g_ed_mods(S, W):
    return ok({'self': H(W, S, 'ann'), 'mods': H(W, S, 'modlist'), 'append': V(S.coin(0.7))})


def _g_ed_index(S, W):
    a = H(W, S, 'ann')
    if a is None:
        return None
    return {'self': a, 'index': V(S.randint(0, max(0, seqlen(W, a) - 1))), 'mods': H(W, S, 'modlist'),
            'append': V(S.coin(0.7))}


_ed('add_nterm_mods', lambda pt, a: a['self'].add_nterm_mods(a['mods'], a['append']), gen=_g_ed_mods)
_ed('add_cterm_mods', lambda pt, a: a['self'].add_cterm_mods(a['mods'], a['append']), gen=_g_ed_mods)
_ed('add_unknown_mods', lambda pt, a: a['self'].add_unknown_mods(a['mods'], a['append']), gen=_g_ed_mods)
_ed('add_labile_mods', lambda pt, a: a['self'].add_labile_mods([pt.Mod('Phospho', 1)], a['append']),
    gen=lambda S, W: ok({'self': H(W, S, 'ann'), 'append': V(S.coin(0.7))}))
_ed('add_internal_mod', lambda pt, a: a['self'].add_internal_mod(a['index'], a['mods'], a['append']), gen=_g_ed_index)
def _g_ed_pop_index(S, W):
    # mostly a residue that carries modifications (popping the last modified residue leaves an EMPTIED container
    # behind - a state queries must cope with and must not "tidy up" on the caller's object)
    d = _g_ed_index(S, W)
    if d is None:
        return None
    sp = W['specs'].get(d['self']['h'])
    keys = sorted(int(x) for x in (sp or {}).get('internal', {}))
    if keys and S.coin(0.8):
        d['index'] = V(S.pick(keys))
    return d


_ed('pop_internal_mod', lambda pt, a: a['self'].pop_internal_mod(a['index']), gen=_g_ed_pop_index)
_ed('pop_labile_mods', lambda pt, a: a['self'].pop_labile_mods())
_ed('pop_nterm_mods', lambda pt, a: a['self'].pop_nterm_mods())
_ed('set_charge', lambda pt, a: setattr(a['self'], 'charge', a['charge']),
    gen=lambda S, W: ok({'self': H(W, S, 'ann'), 'charge': V(S.pick([None, 1, 2, 3]))}))
_ed('add_static_mods', lambda pt, a: a['self'].add_static_mods(['[57]@C'], a['append']),
    gen=lambda S, W: ok({'self': H(W, S, 'ann'), 'append': V(S.coin(0.7))}))
_ed('add_isotope_mods', lambda pt, a: a['self'].add_isotope_mods(['15N'], a['append']),
    gen=lambda S, W: ok({'self': H(W, S, 'ann'), 'append': V(S.coin(0.7))}))
_ed('reverse_inplace', lambda pt, a: a['self'].reverse(inplace=True, swap_terms=a['swap']),
    gen=lambda S, W: ok({'self': H(W, S, 'ann'), 'swap': V(S.coin())}))
_ed('shift_inplace', lambda pt, a: a['self'].shift(a['n'], inplace=True),
    gen=lambda S, W: ok({'self': H(W, S, 'ann'), 'n': V(S.randint(-5, 5))}))
_ed('sort_inplace', lambda pt, a: a['self'].sort_residues(inplace=True))
_ed('condense_static_inplace', lambda pt, a: a['self'].condense_static_mods(inplace=True))
_ed('set_sequence', lambda pt, a: setattr(a['self'], 'sequence', a['self'].sequence[::-1]))

# ------------------------------------------------------------------------------------------ the less travelled exports
# (helpers the package exports that take caller-owned lists / dictionaries; found by diffing the catalogue against
#  dir(peptacular))

op('get_losses', lambda S, W: ok({'sequence': V(S.pick(['PEPTSIDEK', 'SSTTEEDD', 'KRKR', 'A'])),
                                  'losses': H(W, S, 'losses') if S.coin(0.6) else V([]),
                                  'max_losses': V(S.pick([1, 2, 3]))}),
   lambda pt, a: pt.get_losses(a['sequence'], a['losses'], a['max_losses']), weight=0.5)
op('merge_dicts', lambda S, W: ok({'d1': H(W, S, 'comp'), 'd2': H(W, S, 'comp')}),
   lambda pt, a: pt.merge_dicts(a['d1'], a['d2']), weight=0.5)
op('are_mods_equal', lambda S, W: ok({'mods1': H(W, S, 'modobjs'), 'mods2': H(W, S, 'modobjs')}),
   lambda pt, a: pt.are_mods_equal(a['mods1'], a['mods2']), weight=0.5)
op('are_intervals_equal', lambda S, W: ok({'i1': H(W, S, 'ivobjs'), 'i2': H(W, S, 'ivobjs')}),
   lambda pt, a: pt.are_intervals_equal(a['i1'], a['i2']), weight=0.5)
op('fix_interval_input', lambda S, W: ok({'interval': H(W, S, 'ivone')}),
   lambda pt, a: pt.fix_interval_input(a['interval']), weight=0.4)
op('remove_empty_list_of_mods', lambda S, W: ok({'mods': H(W, S, 'modobjs')}),
   lambda pt, a: pt.remove_empty_list_of_mods(a['mods']), weight=0.4)
op('remove_empty_list_of_list_of_mods', lambda S, W: ok({'mods': H(W, S, 'modgroups')}),
   lambda pt, a: pt.remove_empty_list_of_list_of_mods(a['mods']), weight=0.4)
op('convert_to_mod', lambda S, W: ok({'mod': H(W, S, 'modone')}), lambda pt, a: pt.convert_to_mod(a['mod']), weight=0.3)
op('parse', lambda S, W: ok({'sequence': H(W, S, 'str')}), lambda pt, a: pt.parse(a['sequence']), weight=0.7)
op('sequence_to_annotation', lambda S, W: ok({'sequence': H(W, S, 'str')}),
   lambda pt, a: pt.sequence_to_annotation(a['sequence']), weight=0.7)
op('parse_chem_formula', lambda S, W: ok({'formula': H(W, S, 'compstr')}),
   lambda pt, a: pt.parse_chem_formula(a['formula']), weight=0.4)
op('parse_glycan_formula', lambda S, W: ok({'formula': H(W, S, 'gcompstr')}),
   lambda pt, a: pt.parse_glycan_formula(a['formula']), weight=0.4)


def _c_has_star(pt, a):
    x = a['self']
    return tuple(getattr(x, n)() for n in ('has_mods', 'has_charge', 'has_charge_adducts', 'has_cterm_mods',
                                           'has_internal_mods', 'has_intervals', 'has_isotope_mods',
                                           'has_labile_mods', 'has_nterm_mods', 'has_sequence', 'has_static_mods',
                                           'has_unknown_mods') if hasattr(x, n))


_m('has_star', _c_has_star, weight=1.5)
_m('has_internal_mods_at_index', lambda pt, a: a['self'].has_internal_mods_at_index(a['index']),
   gen=lambda S, W: (lambda s: ok({'self': s, 'index': V(S.randint(0, max(0, seqlen(W, s) - 1)))}) if s else None)(
       H(W, S, 'ann')), weight=0.5)

# ------------------------------------------------------------------------------------------ vocabulary lookups
# (the databases are process-wide objects every query reads; their own lookup methods are queries too.  Entries are
#  projected to ids: the entry objects themselves are the database's, by design)

_DBN = ['UNIMOD_DB', 'PSI_MOD_DB', 'XLMOD_DB', 'RESID_DB']
_DBMASS = [79.97, 80.0, 79.966331, 15.9949, 15.9953, 42.01, 42.010565, 0.984, 100.0, 1.0]
_DBTOL = [0.1, 0.1, 0.01, 1.0, 0.005, 0.001]


def _g_dbmass(S, W):
    return {'db': V(S.pick(_DBN)), 'mass': V(S.pick(_DBMASS)), 'tol': V(S.pick(_DBTOL))}


op('db.entries_by_mono_mass', _g_dbmass,
   lambda pt, a: tuple(e.id for e in getattr(pt, a['db']).get_entries_by_mono_mass(a['mass'], a['tol'])), weight=0.8)
op('db.entries_by_avg_mass', _g_dbmass,
   lambda pt, a: tuple(e.id for e in getattr(pt, a['db']).get_entries_by_avg_mass(a['mass'], a['tol'])), weight=0.5)
op('db.contains_mono_mass', _g_dbmass,
   lambda pt, a: getattr(pt, a['db']).contains_mono_mass(a['mass'], a['tol']), weight=0.5)
op('db.lookup_name',
   lambda S, W: {'db': V('UNIMOD_DB'), 'name': V(S.pick(['Phospho', 'Oxidation', 'Acetyl', 'phospho', 'Nope', 'Methyl']))},
   lambda pt, a: (getattr(pt, a['db']).contains_name(a['name']),
                  getattr(pt, a['db']).get_entry_by_name(a['name']).id if getattr(pt, a['db']).contains_name(a['name'])
                  else None), weight=0.4)


def _g_ed_pop_field(S, W):
    return ok({'self': H(W, S, 'ann'), 'which': V(S.pick(['pop_charge', 'pop_charge_adducts', 'pop_cterm_mods',
                                                          'pop_internal_mods', 'pop_intervals', 'pop_isotope_mods',
                                                          'pop_static_mods', 'pop_unknown_mods', 'pop_mods']))})


_ed('pop_field', lambda pt, a: getattr(a['self'], a['which'])(), gen=_g_ed_pop_field, weight=0.6)
_ed('add_intervals', lambda pt, a: a['self'].add_intervals(a['intervals'], a['append']),
    gen=lambda S, W: ok({'self': H(W, S, 'ann'), 'intervals': H(W, S, 'ivlist'), 'append': V(S.coin(0.5))}))
_ed('add_internal_mods', lambda pt, a: a['self'].add_internal_mods(a['mods'], a['append']),
    gen=lambda S, W: ok({'self': H(W, S, 'ann'), 'mods': H(W, S, 'intdict'), 'append': V(S.coin(0.6))}))
_ed('add_mod_dict', lambda pt, a: a['self'].add_mod_dict(a['mods'], a['append']),
    gen=lambda S, W: ok({'self': H(W, S, 'ann'), 'mods': H(W, S, 'moddict'), 'append': V(S.coin(0.6))}))
_ed('add_charge_adducts', lambda pt, a: a['self'].add_charge_adducts(a['mods'], a['append']),
    gen=lambda S, W: ok({'self': H(W, S, 'ann'), 'mods': V(S.pick(['+Na+', '+2Na+,+H+', '+K+'])),
                         'append': V(S.coin(0.5))}))
_ed('clear_empty_mods', lambda pt, a: a['self'].clear_empty_mods())


def pick_op(S, W, names=None):
    """Draw an op (weighted) whose preconditions hold; returns (name, args) or None."""
    names = names or list(OPS)
    pairs = [(n, OPS[n].weight) for n in names]
    for _ in range(8):
        n = S.weighted(pairs)
        args = OPS[n].gen(S, W)
        if args is not None:
            return n, args
    return None
