"""
kernel.py - the simulator kernel shared by all property modules.

* Sched      : the one PRNG (seeded from VERIF_SEED + run index) every choice of a run is drawn from.
* Plan       : header + pool + list of concrete events, produced by a property module from the Sched *without*
               touching the library; executing / replaying a plan needs no PRNG.
* Outcome    : what executing a plan against the library produced (violation, known-finding hits, fault and probe
               counters, digest of all normalised results).
* run_batch  : forks short-lived children (one per chunk of seeds, so that a child that dirtied process-wide
               state never runs another chunk), collects outcomes, never waits forever.
* minimise   : delta debugging over events, then property-specific Spec shrinking, keeping the violation class.
"""
import collections
import hashlib
import json
import multiprocessing
import multiprocessing.connection
import os
import random
import signal
import sys
import time
import traceback


class Sched:
    """Seeded scheduler stream. Nothing else in the simulator draws random numbers."""

    def __init__(self, seed):
        self.seed = seed
        self._r = random.Random(seed)
        self.draws = 0

    def coin(self, p=0.5):
        self.draws += 1
        return self._r.random() < p

    def randint(self, a, b):
        self.draws += 1
        return self._r.randint(a, b)

    def pick(self, seq):
        self.draws += 1
        return seq[self._r.randrange(len(seq))]

    def sample(self, seq, k):
        self.draws += 1
        return self._r.sample(list(seq), k)

    def shuffled(self, seq):
        self.draws += 1
        s = list(seq)
        self._r.shuffle(s)
        return s

    def weighted(self, pairs):
        """pairs: list of (item, weight)"""
        self.draws += 1
        tot = sum(w for _, w in pairs)
        x = self._r.random() * tot
        for it, w in pairs:
            x -= w
            if x < 0:
                return it
        return pairs[-1][0]


class Violation(Exception):
    def __init__(self, prop, invariant, op, detail, message, event=None, extra=None):
        super().__init__(message)
        self.prop, self.invariant, self.op, self.detail = prop, invariant, op, detail
        self.message = message
        self.event = event
        self.extra = extra or {}

    @property
    def vclass(self):
        return [self.prop, self.invariant, self.op, self.detail]

    def to_json(self):
        d = {'property': self.prop, 'invariant': self.invariant, 'op': self.op, 'detail': self.detail,
             'message': self.message, 'event': self.event}
        d.update(self.extra)
        return d


class HarnessError(Exception):
    """Something went wrong inside the simulator itself - never reported as a property violation."""


class Outcome:
    def __init__(self):
        self.violation = None       # dict (Violation.to_json()) - the first one not listed as a known finding
        self.known = collections.Counter()   # known-finding id -> hits
        self.faults = collections.Counter()  # fault kind -> times it actually fired
        self.probes = collections.Counter()  # probe name -> hits
        self.events = 0
        self.oracle_checks = 0
        self.log = []               # normalised per-event results (hashed into the digest)
        self.shape = None           # interleaving signature of the run
        self.nontrivial = False
        self.states = set()         # hashes of abstract pool states seen

    def record(self, item):
        self.log.append(item)

    def digest(self):
        h = hashlib.sha1()
        h.update(json.dumps(self.log, sort_keys=True, default=repr).encode())
        return h.hexdigest()


def sha(obj):
    return hashlib.sha1(json.dumps(obj, sort_keys=True, default=repr).encode()).hexdigest()[:16]


# ----------------------------------------------------------------------------------------------------------
# known findings

class KnownFindings:
    def __init__(self, path):
        self.path = path
        self.entries = []
        if os.path.exists(path):
            with open(path) as f:
                self.entries = json.load(f)

    def match(self, v):
        """v: Violation.to_json() dict. Only status 'known' entries suppress; 'fixed' ones never do."""
        for e in self.entries:
            if e.get('status') != 'known':
                continue
            if e['property'] != v['property'] or e['invariant'] != v['invariant']:
                continue
            if e.get('op') not in (None, v['op']):
                continue
            if e.get('detail') not in (None, v['detail']):
                continue
            return e
        return None

    def for_property(self, prop):
        return [e for e in self.entries if e['property'] == prop and e.get('status') == 'known']


# ----------------------------------------------------------------------------------------------------------
# batch running

def _child(conn, mod_name, seeds, tier, opts):
    try:
        import faulthandler
        faulthandler.dump_traceback_later(opts.get('child_timeout', 600), exit=True)
        from sim import registry
        mod = registry.load(mod_name)
        res = run_chunk(mod, seeds, tier, opts)
        conn.send(res)
    except BaseException:  # noqa
        try:
            conn.send({'harness_error': traceback.format_exc()})
        except Exception:
            pass
    finally:
        conn.close()
        os._exit(0)


class _RunTimeout(BaseException):
    pass


def _on_alarm(signum, frame):
    raise _RunTimeout()



class ColdServer:
    """The restart fault.  A process forked when this worker had executed nothing since import; for a run marked cold
    it forks once more and the whole run executes there - in a process whose caches, memo tables and lazily built
    vocabularies are all in their import-time state, as after a restart of the client program.  The same invariants
    are checked by the same code; only the history of the process differs (none, instead of the runs before)."""

    def __init__(self, mod):
        self.conn, child = multiprocessing.Pipe()
        self.pid = os.fork()
        if self.pid == 0:
            self.conn.close()
            try:
                self._serve(mod, child)
            finally:
                os._exit(0)
        child.close()

    @staticmethod
    def _serve(mod, conn):
        signal.signal(signal.SIGALRM, signal.SIG_DFL)
        signal.setitimer(signal.ITIMER_REAL, 0)
        while True:
            try:
                req = conn.recv()
            except (EOFError, OSError):
                return
            if req is None:
                return
            plan, timeout = req
            timeout = plan['header'].get('soft_timeout') or timeout
            pid = os.fork()
            if pid == 0:
                try:
                    signal.alarm(int(timeout))
                    if not mod.clean_start():
                        conn.send(('dirty', None, None))
                    else:
                        out = mod.execute(plan)
                        dg = out.digest()
                        out.log = []
                        conn.send(('ok', out, dg))
                except BaseException:  # noqa
                    try:
                        conn.send(('harness', traceback.format_exc(), None))
                    except Exception:
                        pass
                finally:
                    try:
                        if hasattr(mod, 'shutdown'):
                            mod.shutdown()
                    finally:
                        os._exit(0)
            _, status = os.waitpid(pid, 0)
            if os.WIFSIGNALED(status):
                # the run was cut off (its alarm fired, or it crashed) before it could answer: answer for it
                conn.send(('killed', os.WTERMSIG(status), None))

    def run(self, plan, timeout):
        self.conn.send((plan, timeout))
        if not self.conn.poll(timeout + 15):
            raise _RunTimeout()
        return self.conn.recv()

    def close(self):
        try:
            self.conn.send(None)      # explicit stop: other forks of this worker may hold our end of the pipe open
            self.conn.close()
            os.waitpid(self.pid, 0)
        except Exception:
            pass


def run_chunk(mod, seeds, tier, opts):
    """Run a list of seeds sequentially in this process and summarise."""
    res = {'runs': 0, 'events': 0, 'oracle_checks': 0, 'faults': collections.Counter(),
           'probes': collections.Counter(), 'known': collections.Counter(), 'shapes': set(), 'states': set(),
           'nontrivial': set(), 'digests': {}, 'violation': None, 'samples': [], 'harness_error': None,
           'retired': False}
    want_digests = opts.get('digests', False)
    signal.signal(signal.SIGALRM, _on_alarm)
    if hasattr(mod, 'set_full_global'):
        mod.set_full_global(opts.get('full_global', False))
    executed = []     # plans already executed in this process, in order (a violation may depend on them)
    cold_every = opts.get('cold_every', getattr(mod, 'COLD_EVERY', 0))
    cold = None
    if hasattr(mod, 'setup') and not opts.get('no_cold'):
        mod.setup()
        cold = ColdServer(mod)        # forked now: nothing has been executed in this worker yet
    try:
        return _run_chunk_loop(mod, seeds, tier, opts, res, executed, cold, cold_every, want_digests)
    finally:
        if cold is not None:
            cold.close()
        if hasattr(mod, 'shutdown'):
            mod.shutdown()


def _run_chunk_loop(mod, seeds, tier, opts, res, executed, cold, cold_every, want_digests):
    for pos, (base, idx) in enumerate(seeds):
        seed = base + idx
        if not mod.clean_start():
            res['retired'] = True
            res['unrun'] = seeds[pos:]
            break
        try:
            plan = mod.gen_plan(Sched(seed), idx, tier)
            if cold_every and idx % cold_every == cold_every - 1:
                plan['header']['cold'] = True
            is_cold = bool(plan['header'].get('cold')) and cold is not None
            dg = None
            if is_cold:
                tag, out, dg = cold.run(plan, opts.get('run_timeout', 120))
                if tag == 'killed' and plan['header'].get('soft_timeout') and out == signal.SIGALRM:
                    # a run of a family with a soft cost budget (protein-sized input) went over it: not judged
                    res['runs'] += 1
                    res['probes']['cold_run_abandoned_over_soft_budget'] += 1
                    if want_digests:
                        res['digests'][seed] = 'over-soft-budget'
                    continue
                if tag == 'dirty':
                    raise HarnessError("process-wide state differs from import-time content in a cold process")
                if tag != 'ok':
                    res['harness_error'] = f"seed {seed} (cold): {out}"
                    break
                out.faults['restart'] += 1
            else:
                signal.setitimer(signal.ITIMER_REAL, opts.get('run_timeout', 120))
                try:
                    out = mod.execute(plan)
                finally:
                    signal.setitimer(signal.ITIMER_REAL, 0)
        except _RunTimeout:
            res['harness_error'] = f"run index {idx} (seed {seed}) exceeded {opts.get('run_timeout', 120)}s wall"
            break
        except HarnessError:
            res['harness_error'] = f"seed {seed}: " + traceback.format_exc()
            break
        except Exception:
            res['harness_error'] = f"seed {seed}: " + traceback.format_exc()
            break
        res['runs'] += 1
        res['events'] += out.events
        res['oracle_checks'] += out.oracle_checks
        res['faults'].update(out.faults)
        res['probes'].update(out.probes)
        res['known'].update(out.known)
        if out.shape is not None:
            res['shapes'].add(out.shape)
            if out.nontrivial:
                res['nontrivial'].add(out.shape)
        res['states'].update(out.states)
        if want_digests:
            res['digests'][seed] = dg if dg is not None else out.digest()
        if len(res['samples']) < 1 and out.nontrivial:
            res['samples'].append({'seed': seed, 'events': plan['events'][:12], 'pool': plan['pool']})
        if out.violation is not None:
            res['violation'] = {'seed': seed, 'plan': plan, 'violation': out.violation,
                                'prefix': [] if is_cold else executed[-opts.get('prefix_keep', 400):]}
            break
        if not is_cold:
            executed.append(plan)
    if res['violation'] is None and not res['harness_error'] and hasattr(mod, 'chunk_end_clean') \
            and not opts.get('full_global') and not mod.chunk_end_clean():
        # some run of this chunk changed process-wide content without the cheap fingerprint noticing:
        # re-run the chunk on the slow path (content hash after every run) to find the culprit
        res['recheck'] = list(seeds)
    return res


def run_batch(mod_name, seeds, tier, workers=None, chunk=100, budget_s=None, opts=None):
    """Fork one child per chunk of seeds; at most `workers` alive. Returns the merged summary."""
    opts = dict(opts or {})
    workers = workers or min(16, os.cpu_count() or 1)
    ctx = multiprocessing.get_context('fork')
    seeds = list(seeds)
    chunks = [seeds[i:i + chunk] for i in range(0, len(seeds), chunk)]
    chunks.reverse()
    total = {'runs': 0, 'events': 0, 'oracle_checks': 0, 'faults': collections.Counter(),
             'probes': collections.Counter(), 'known': collections.Counter(), 'shapes': set(), 'states': set(),
             'nontrivial': set(), 'digests': {}, 'violations': [], 'samples': [], 'harness_errors': [],
             'retired': 0, 'seeds_planned': len(seeds), 'stopped_early': False}
    live = {}
    t0 = time.time()
    child_timeout = opts.get('child_timeout', 600)
    stop = False
    while chunks or live:
        while chunks and len(live) < workers and not stop:
            if budget_s is not None and time.time() - t0 > budget_s:
                total['stopped_early'] = True
                chunks = []
                break
            sl = chunks.pop()
            pc, cc = ctx.Pipe(duplex=False)
            p = ctx.Process(target=_child, args=(cc, mod_name, sl, tier, opts))
            p.start()
            cc.close()
            live[pc] = (p, sl, time.time())
        if not live:
            break
        ready = multiprocessing.connection.wait(list(live.keys()), timeout=1.0)
        now = time.time()
        for pc in list(live.keys()):
            p, sl, ts = live[pc]
            if pc in ready:
                try:
                    res = pc.recv()
                except EOFError:
                    res = {'harness_error': f'child for runs {sl[0]}..{sl[-1]} died without a result '
                                            f'(exit {p.exitcode})'}
                pc.close()
                p.join(10)
                del live[pc]
                _merge(total, res, sl)
                if res.get('recheck'):
                    pc2, cc2 = ctx.Pipe(duplex=False)
                    o2 = dict(opts, full_global=True)
                    p2 = ctx.Process(target=_child, args=(cc2, mod_name, res['recheck'], tier, o2))
                    p2.start()
                    cc2.close()
                    live[pc2] = (p2, res['recheck'], time.time())
                    total['rechecked_chunks'] = total.get('rechecked_chunks', 0) + 1
                if res.get('unrun'):
                    if res.get('runs', 0) == 0 and not res.get('violation'):
                        total['harness_errors'].append('a freshly forked child started with dirty process-wide state')
                    else:
                        chunks.append(res['unrun'])
                if res.get('violation') and opts.get('stop_on_violation', True):
                    stop = True
                    chunks = []
            elif now - ts > child_timeout + 30:
                p.kill()
                p.join(10)
                pc.close()
                del live[pc]
                total['harness_errors'].append(f'child for runs {sl[0]}..{sl[-1]} exceeded {child_timeout}s')
    total['wall_s'] = time.time() - t0
    return total


def _merge(total, res, sl):
    if res.get('harness_error'):
        total['harness_errors'].append(res['harness_error'])
    if res.get('recheck'):
        return   # the chunk is being re-run on the slow path; count it once
    for k in ('runs', 'events', 'oracle_checks'):
        total[k] += res.get(k, 0)
    for k in ('faults', 'probes', 'known'):
        total[k].update(res.get(k, {}))
    for k in ('shapes', 'states', 'nontrivial'):
        total[k].update(res.get(k, ()))
    total['digests'].update(res.get('digests', {}))
    if res.get('violation'):
        total['violations'].append(res['violation'])
    if res.get('retired'):
        total['retired'] += 1
    if len(total['samples']) < 3:
        total['samples'].extend(res.get('samples', []))


# ----------------------------------------------------------------------------------------------------------
# minimisation (delta debugging on the event list, then module-specific plan shrinking)

def same_class(v, vclass):
    return v is not None and [v['property'], v['invariant'], v['op'], v['detail']] == list(vclass)


def _seq_child(conn, mod_name, plans):
    try:
        import faulthandler
        faulthandler.dump_traceback_later(300, exit=True)
        from sim import registry
        mod = registry.load(mod_name)
        if hasattr(mod, 'set_full_global'):
            mod.set_full_global(True)     # content hashes after every run: what the batch's slow path saw must recur here
        mod.clean_start()
        v = None
        for pl in plans:
            v = mod.execute(pl).violation
        conn.send(['ok', v])
    except BaseException:  # noqa
        try:
            conn.send(['err', traceback.format_exc()])
        except Exception:
            pass
    finally:
        conn.close()
        os._exit(0)


def eval_sequence(mod_name, plans, timeout=330):
    """Execute plans one after the other in a freshly forked child of this (pristine) process; return the violation
    of the last one, or None.  The calling process itself never executes a plan, so it stays in import-time state."""
    ctx = multiprocessing.get_context('fork')
    pc, cc = ctx.Pipe(duplex=False)
    p = ctx.Process(target=_seq_child, args=(cc, mod_name, plans))
    p.start()
    cc.close()
    try:
        if not pc.poll(timeout):
            p.kill()
            return None
        tag, v = pc.recv()
    except EOFError:
        return None
    finally:
        p.join(5)
        pc.close()
    return v if tag == 'ok' else None


def eval_many(mod_name, sequences, workers=16, timeout=330):
    """eval_sequence for many plan sequences, `workers` fresh children at a time.  Returns a list of (tag, violation):
    tag 'ok' (violation may be None), 'err' (the plans could not be executed - e.g. a stale stored plan), 'timeout'."""
    ctx = multiprocessing.get_context('fork')
    out = [None] * len(sequences)
    pending = list(enumerate(sequences))
    live = {}
    while pending or live:
        while pending and len(live) < workers:
            i, plans = pending.pop(0)
            pc, cc = ctx.Pipe(duplex=False)
            p = ctx.Process(target=_seq_child, args=(cc, mod_name, plans))
            p.start()
            cc.close()
            live[i] = (p, pc, time.time())
        for i in list(live):
            p, pc, t0 = live[i]
            got = None
            try:
                if pc.poll(0.02):
                    got = pc.recv()
                elif not p.is_alive():
                    got = ['err', 'child died without an answer']
                elif time.time() - t0 > timeout:
                    p.kill()
                    got = ['timeout', None]
            except EOFError:
                got = ['err', 'child closed the pipe']
            if got is not None:
                out[i] = (got[0], got[1] if got[0] == 'ok' else None)
                p.join(5)
                pc.close()
                del live[i]
    return out


def minimise(mod_name, mod, plan, vclass, prefix=None, budget_s=60):
    """Delta debugging. Returns (plan, violation, prefix): `prefix` is the (reduced) list of plans that have to run
    before `plan` in the same process for the violation to show - empty for everything that does not depend on
    cross-run process state."""
    t0 = time.time()
    best = json.loads(json.dumps(plan))
    pre = []

    def fails(cand, cand_pre):
        v = eval_sequence(mod_name, list(cand_pre) + [cand])
        return v if same_class(v, vclass) else None

    v = fails(best, pre)
    if v is None and prefix:
        pre = list(prefix)
        v = fails(best, pre)
        if v is None:
            return plan, None, []
        # ddmin over the preceding runs
        n = 2
        while len(pre) >= 1 and time.time() - t0 < budget_s:
            size = max(1, len(pre) // n)
            reduced = False
            for i in range(0, len(pre), size):
                cand = pre[:i] + pre[i + size:]
                r = fails(best, cand)
                if r is not None:
                    pre, v = cand, r
                    n = max(n - 1, 2)
                    reduced = True
                    break
            if not reduced:
                if size == 1:
                    break
                n = min(len(pre), n * 2)
    elif v is None:
        return plan, None, []
    last_v = v

    def try_plan(cand):
        nonlocal best, last_v
        if time.time() - t0 > budget_s:
            return False
        r = fails(cand, pre)
        if r is not None:
            best = cand
            last_v = r
            return True
        return False

    # 1. truncate after the violating event
    ev_idx = v.get('event')
    if isinstance(ev_idx, int) and ev_idx + 1 < len(best['events']):
        try_plan(dict(best, events=best['events'][:ev_idx + 1]))
    # 2. ddmin over events
    n = 2
    while len(best['events']) >= 2 and time.time() - t0 < budget_s:
        evs = best['events']
        size = max(1, len(evs) // n)
        reduced = False
        for i in range(0, len(evs), size):
            cand = dict(best, events=evs[:i] + evs[i + size:])
            if cand['events'] and try_plan(cand):
                n = max(n - 1, 2)
                reduced = True
                break
        if not reduced:
            if size == 1:
                break
            n = min(len(evs), n * 2)
    # 3. module-specific shrinking of Specs / arguments, to fixpoint
    changed = True
    while changed and time.time() - t0 < budget_s:
        changed = False
        for cand in mod.shrink_candidates(best):
            if try_plan(cand):
                changed = True
                break
    # 4. the preceding runs: keep only their events up to the last call (cheap second pass over single events)
    for k in range(len(pre)):
        if time.time() - t0 > budget_s:
            break
        evs = pre[k]['events']
        for cut in (1, 2):
            if len(evs) > cut:
                cand_pre = pre[:k] + [dict(pre[k], events=evs[:cut])] + pre[k + 1:]
                r = fails(best, cand_pre)
                if r is not None:
                    pre, last_v = cand_pre, r
                    break
    # 5. drop unused pool entries
    used = json.dumps(best['events'])
    pool = {k: v for k, v in best['pool'].items() if f'"{k}"' in used or _pool_ref(best['pool'], k)}
    try_plan(dict(best, pool=pool))
    return best, last_v, pre


def _pool_ref(pool, k):
    s = json.dumps([v for kk, v in pool.items() if kk != k])
    return f'"{k}"' in s


def write_json(path, obj):
    tmp = path + '.tmp'
    with open(tmp, 'w') as f:
        json.dump(obj, f, indent=1, default=_json_default)
    os.replace(tmp, path)


def _json_default(o):
    if isinstance(o, (set, frozenset)):
        return sorted(o, key=repr)
    if isinstance(o, collections.Counter):
        return dict(o)
    return repr(o)
