"""
C20 - Modification dictionaries and annotation copies reconstruct the same peptide.

Simulated: the editor API of ProFormaAnnotation as a small mutable store.  Live objects: a source, copies of it
(copy()) and rebuilds (create_annotation(**x.dict())), each shadowed by a ModelPeptide.  A seeded history of editor
operations (every add_* / pop_* / setter / add_mod_dict / pt.add_mods / strip, values passed as Mod, raw value, list or
a caller-owned list that the caller edits later), pokes at Mod objects reached through accessors, scribbles on
returned views (dict(), mod_dict(), get_mods(), copy(), popped lists) and single-field perturbations runs against
them.  After every event: every live object equals its model (so an edit of a copy that leaks into its source, or the
reverse, is caught at the very step it happens), the get/add round trip and dict reconstruction hold, and the
equality matrix over all live objects equals the model's (reflexive, symmetric, order-blind at one position,
sensitive to every single-field difference).
"""
import copy
import json

from sim import norm as N, spec as SP, world
from sim.kernel import HarnessError, sha
from sim.model import ModelPeptide, condense_static, parse_static_rule
from sim.props import base
from sim.props.base import Env, RunBase

ID = 'C20'
CHUNK = 200
COLD_EVERY = 16      # restart fault: every 16th run executes in a process that has executed nothing since import
setup = base.setup
clean_start = base.clean_start
chunk_end_clean = base.chunk_end_clean
set_full_global = base.set_full_global
force_clean = base.force_clean

FIELDS = ['labile', 'unknown', 'nterm', 'cterm', 'isotope', 'static', 'adducts']
ADD = {'labile': 'add_labile_mods', 'unknown': 'add_unknown_mods', 'nterm': 'add_nterm_mods',
       'cterm': 'add_cterm_mods', 'isotope': 'add_isotope_mods', 'static': 'add_static_mods',
       'adducts': 'add_charge_adducts'}
POP = {'labile': 'pop_labile_mods', 'unknown': 'pop_unknown_mods', 'nterm': 'pop_nterm_mods',
       'cterm': 'pop_cterm_mods', 'isotope': 'pop_isotope_mods', 'static': 'pop_static_mods',
       'adducts': 'pop_charge_adducts'}
ATTR = {'labile': 'labile_mods', 'unknown': 'unknown_mods', 'nterm': 'nterm_mods', 'cterm': 'cterm_mods',
        'isotope': 'isotope_mods', 'static': 'static_mods', 'adducts': 'charge_adducts'}
DKEY = {'labile': 'labile', 'unknown': 'unknown', 'nterm': 'nterm', 'cterm': 'cterm', 'isotope': 'isotope',
        'static': 'static', 'adducts': 'charge_adducts'}
POPKEY = dict(DKEY)

FAULT_KINDS = ['scribble', 'reuse', 'poke']


# ------------------------------------------------------------------------------------------ plan generation

def _gen_fieldval(S, cfg, f, n=None):
    if f == 'isotope':
        return [[v, 1] for v in S.sample(SP.ISOTOPES, n or S.randint(1, 2))]
    if f == 'static':
        return [[S.pick(['[57]@C', '[Oxidation]@M', '[1]@K,R', '[Acetyl]@N-Term', '[2][3]@C-Term', '[Phospho]@S,T,Y']),
                 1] for _ in range(n or S.randint(1, 2))]
    if f == 'adducts':
        return [[S.pick(SP.ADDUCTS), 1]]
    return SP.gen_mods(S, cfg, 1, n or 2)


def _form(S, f, val):
    """how the value is handed to the API"""
    forms = ['modlist', 'modlist']
    if len(val) == 1:
        forms.append('mod')
    if f != 'labile' and all(m[1] == 1 for m in val):
        forms += ['rawlist'] + (['raw'] if len(val) == 1 else [])
    return S.pick(forms)


def gen_plan(S, index, tier):
    header = {'property': ID, 'seed': S.seed, 'index': index, 'tier': tier}
    families = list(SP.MASSABLE) + ['info']
    cfg = SP.swarm_cfg(S, maxlen=S.pick([4, 8, 25]), families=families)
    if S.coin(0.2):
        cfg['families'] = sorted(set(cfg['families']) | {'poisonvals'})
    if S.coin(0.1):
        cfg['families'] = sorted(set(cfg['families']) | {'bigint'})
    sp = SP.gen_pep(S, cfg)
    fault_free = S.coin(0.2)
    faults = [] if fault_free else [f for f in FAULT_KINDS if S.coin(0.6)]
    pool = {'X0': {'kind': 'ann', 'via': S.pick(['parse', 'create']), 'spec': sp}}
    if pool['X0']['via'] == 'create':
        pool['X0']['order'] = SP.gen_order(S, sp)
    models = {'X0': ModelPeptide.from_spec(sp)}
    if S.coin(0.4):
        # a second, unrelated peptide that lives alongside (state shared between DIFFERENT objects - a class-level
        # scratch object, a module-level default - only shows with two of them)
        sp2 = SP.gen_pep(S, cfg)
        pool['Y0'] = {'kind': 'ann', 'via': S.pick(['parse', 'create']), 'spec': sp2}
        models['Y0'] = ModelPeptide.from_spec(sp2)
    lists = {}     # caller-owned lists: handle -> (field it fits, value)
    events = []
    header.update({'mode': 'random', 'faults': faults, 'fault_free': fault_free, 'maxlen': cfg['maxlen']})
    nobj = 1
    nlist = 0
    nev = S.randint(8, 25)
    # always start by making at least one copy / rebuild early
    weights = {'copy': 3, 'rebuild': 2, 'field': 6, 'internal': 6, 'intervals': 2, 'charge': 1.5, 'pop': 3,
               'strip': 0.6, 'view': 3 if 'scribble' in faults else 0, 'argscr': 1.5 if 'reuse' in faults else 0,
               'roundtrip': 3, 'perturb': 4, 'reorder': 1.5, 'poke': 2 if 'poke' in faults else 0, 'seq': 0.7,
               'moddict': 2.5, 'condense': 2.0}
    if S.coin(0.5):   # swarm: drop some op kinds
        for k in S.sample(sorted(weights), S.randint(1, 5)):
            if k not in ('copy',):
                weights[k] = 0
    for step in range(nev):
        hs = sorted(models)
        kind = 'copy' if step == 0 or (step == 1 and S.coin(0.5)) else S.weighted([(k, w) for k, w in weights.items()
                                                                                   if w > 0])
        h = S.pick(hs)
        m = models[h]
        n = len(m)
        if kind in ('copy', 'rebuild'):
            if nobj >= 4:
                continue
            h2 = f'X{nobj}'
            nobj += 1
            ev = {'act': kind, 'src': h, 'out': h2}
            if kind == 'copy':
                # the copies a client makes: the method, the standard library's deepcopy, a pickle round trip
                ev['via'] = S.pick(['copy', 'copy', 'deepcopy', 'pickle'])
            models[h2] = m.clone()
            if kind == 'rebuild' and nobj < 4 and S.coin(0.6):
                # two annotations built from ONE field dictionary that the caller keeps
                h3 = f'X{nobj}'
                nobj += 1
                ev['out2'] = h3
                models[h3] = m.clone()
            events.append(ev)
        elif kind == 'field':
            f = S.pick(FIELDS)
            val = _gen_fieldval(S, cfg, f)
            append = S.coin(0.5)
            via = S.pick(['add', 'add', 'set', 'moddict', 'ptadd'])
            if via == 'set':
                append = False
            ev = {'act': 'field', 'obj': h, 'field': f, 'mods': val, 'append': append, 'via': via,
                  'form': _form(S, f, val)}
            if 'reuse' in faults and S.coin(0.35) and ev['form'] in ('modlist', 'rawlist'):
                lh = f'L{nlist}'
                nlist += 1
                pool[lh] = {'kind': 'callerlist', 'mods': val, 'form': ev['form']}
                lists[lh] = val
                ev['form'] = 'handle'
                ev['handle'] = lh
            events.append(ev)
            _m_field(m, f, val, append)
        elif kind == 'internal':
            if n == 0:
                continue
            via = S.pick(['add_internal_mod', 'add_internal_mod', 'add_internal_mods', 'set', 'moddict', 'ptadd'])
            append = S.coin(0.5) if via != 'set' else False
            d = {}
            for _ in range(1 if via == 'add_internal_mod' else S.randint(1, 2)):
                d[str(S.randint(0, n - 1))] = SP.gen_mods(S, cfg, 1, 2)
            ev = {'act': 'internal', 'obj': h, 'mods': d, 'append': append, 'via': via,
                  'form': S.pick(['modlist', 'modlist', 'rawlist', 'mod', 'raw'])}
            events.append(ev)
            _m_internal(m, d, append, via)
        elif kind == 'intervals':
            if n == 0:
                continue
            ivs = SP.gen_intervals(S, cfg, n)
            if S.coin(0.2):
                # an EMPTY interval (start == end: the notation 'PE()[Phospho]PTIDE' is accepted and written back) -
                # at the start of another interval (two intervals sharing a start) or anywhere
                s0 = S.pick([iv[0] for iv in ivs]) if ivs and S.coin(0.6) else S.randint(0, n)
                ivs.append([s0, s0, False, SP.gen_mods(S, cfg, 1, 1)])
                ivs.sort(key=lambda iv: (iv[0], iv[1]))
            append = S.coin(0.3) and not m.intervals
            ev = {'act': 'intervals', 'obj': h, 'ivs': ivs, 'append': append,
                  'via': S.pick(['add', 'set', 'moddict']), 'form': S.pick(['tuple', 'interval', 'mixed'])}
            if ev['via'] == 'set':
                ev['append'] = append = False
            events.append(ev)
            _m_intervals(m, ivs, append)
        elif kind == 'charge':
            c = S.pick([1, 2, 3, -1, -2, None])
            events.append({'act': 'charge', 'obj': h, 'charge': c, 'via': S.pick(['set', 'add_charge', 'moddict'])})
            if events[-1]['via'] == 'moddict' and c is None:
                events[-1]['via'] = 'set'
            m.charge = c
        elif kind == 'seq':
            if n == 0:
                continue
            i = S.randint(0, n - 1)
            aa = S.pick([a for a in SP.STD if a != m.res[i][0]])
            events.append({'act': 'seq', 'obj': h, 'index': i, 'aa': aa})
            m.res[i][0] = aa
        elif kind == 'pop':
            what = S.pick(FIELDS + ['internal_mod', 'internal', 'intervals', 'charge', 'all'])
            ev = {'act': 'pop', 'obj': h, 'what': what, 'scribble': 'scribble' in faults and S.coin(0.6),
                  'k': S.randint(0, 999)}
            if what == 'internal_mod':
                if n == 0:
                    continue
                cand = [i for i in range(n) if m.res[i][1]]
                ev['index'] = S.pick(cand) if cand and S.coin(0.8) else S.randint(0, n - 1)
            events.append(ev)
            _m_pop(m, ev)
        elif kind == 'strip':
            inplace = S.coin(0.5)
            events.append({'act': 'strip', 'obj': h, 'inplace': inplace})
            if inplace:
                m.strip()
        elif kind == 'condense':
            # static rules with single-letter / terminal targets only (a target is used as a pattern by the library)
            if not m.static or any(len(t) != 1 and t not in ('N-Term', 'C-Term')
                                   for st in m.static for t in parse_static_rule(st[0])[1]):
                # give the object a rule first, on every live object alike with some probability
                rule = S.pick(['[Acetyl]@N-Term', '[57]@C', '[2][3]@C-Term', '[Phospho]@S,T,Y', '[1]@K,N-Term'])
                targets = [h] if S.coin(0.5) else sorted(models)
                for t_ in targets:
                    events.append({'act': 'field', 'obj': t_, 'field': 'static', 'mods': [[rule, 1]], 'append': False,
                                   'via': 'add', 'form': 'modlist'})
                    _m_field(models[t_], 'static', [[rule, 1]], False)
            inplace = S.coin(0.6)
            ev = {'act': 'condense', 'obj': h, 'inplace': inplace}
            if inplace:
                condense_static(m)
            elif nobj < 4:
                h2 = f'X{nobj}'
                nobj += 1
                ev['out'] = h2
                models[h2] = m.clone()
                condense_static(models[h2])
            events.append(ev)
        elif kind == 'view':
            events.append({'act': 'view', 'obj': h, 'view': S.pick(['dict', 'mod_dict', 'get_mods', 'copy',
                                                                     'pop_mods_fn', 'strip', 'slice_all']),
                           'k': S.randint(0, 999)})
        elif kind == 'argscr':
            if not lists:
                continue
            events.append({'act': 'argscr', 'list': S.pick(sorted(lists)), 'k': S.randint(0, 999)})
        elif kind == 'roundtrip':
            events.append({'act': 'roundtrip', 'obj': h})
        elif kind == 'reorder':
            locs = _locs_with(m, 2)
            if not locs:
                continue
            loc = S.pick(locs)
            cur = _get_loc(m, loc)
            new = S.shuffled(cur)
            if new == cur:
                new = list(reversed(cur))
            events.append({'act': 'setloc', 'obj': h, 'loc': loc, 'mods': new, 'why': 'reorder'})
            _set_loc(m, loc, new)
        elif kind == 'perturb':
            ev = _gen_perturb(S, cfg, m, h)
            if ev is None:
                continue
            events.append(ev)
        elif kind == 'poke':
            locs = _locs_with(m, 1)
            if not locs:
                continue
            loc = S.pick(locs)
            cur = _get_loc(m, loc)
            j = S.randint(0, len(cur) - 1)
            what = S.pick(['val', 'mult'])
            newv = 'Poked' if what == 'val' else cur[j][1] + 1
            events.append({'act': 'poke', 'obj': h, 'loc': loc, 'j': j, 'what': what, 'new': newv})
            cur[j][0 if what == 'val' else 1] = newv
        elif kind == 'moddict':
            # several keys at once through add_mod_dict / pt.add_mods
            keys = S.sample(['nterm', 'cterm', 'labile', 'unknown', 'charge', 'pos'], S.randint(2, 3))
            d = []
            append = S.coin(0.6)
            for k in keys:
                if k == 'charge':
                    d.append(['charge', S.pick([1, 2, 3])])
                elif k == 'pos':
                    if n:
                        d.append([S.randint(0, n - 1), SP.gen_mods(S, cfg, 1, 2)])
                else:
                    d.append([k, _gen_fieldval(S, cfg, k)])
            ev = {'act': 'moddict', 'obj': h, 'items': d, 'append': append, 'via': S.pick(['add_mod_dict', 'ptadd']),
                  'form': S.pick(['modlist', 'rawlist'])}
            events.append(ev)
            _m_moddict(m, d, append)
    events.append({'act': 'roundtrip', 'obj': S.pick(sorted(models))})
    return {'header': header, 'pool': pool, 'events': events}


def _locs_with(m, k):
    locs = [['field', f] for f in ('labile', 'unknown', 'nterm', 'cterm') if len(getattr(m, f)) >= k]
    locs += [['internal', i] for i, r in enumerate(m.res) if len(r[1]) >= k]
    locs += [['interval', i] for i, iv in enumerate(m.intervals) if iv[3] and len(iv[3]) >= k]
    return locs


def _get_loc(m, loc):
    if loc[0] == 'field':
        return getattr(m, loc[1])
    if loc[0] == 'internal':
        return m.res[loc[1]][1]
    if loc[0] == 'interval':
        return m.intervals[loc[1]][3]
    raise HarnessError(loc)


def _set_loc(m, loc, val):
    val = [list(x) for x in val]
    if loc[0] == 'field':
        setattr(m, loc[1], val)
    elif loc[0] == 'internal':
        m.res[loc[1]][1] = val
    elif loc[0] == 'interval':
        m.intervals[loc[1]][3] = val or None


def _gen_perturb(S, cfg, m, h):
    kinds = ['value', 'mult', 'position', 'bound', 'charge', 'drop', 'dup', 'ambiguous', 'global', 'global']
    for _ in range(6):
        kind = S.pick(kinds)
        if kind in ('value', 'mult', 'drop', 'dup'):
            locs = _locs_with(m, 1)
            if not locs:
                continue
            loc = S.pick(locs)
            cur = [list(x) for x in _get_loc(m, loc)]
            j = S.randint(0, len(cur) - 1)
            if kind == 'value':
                twins = [jj for jj, x in enumerate(cur) if not isinstance(x[0], bool) and x[0] in SP.VALUE_TWIN]
                if twins:
                    # a near-miss: another value that differs from the old one only in letter case (and is another
                    # substance), or has the same hash(), or is equal up to a float tolerance
                    j = S.pick(twins)
                    nv = SP.VALUE_TWIN[cur[j][0]]
                else:
                    nv = SP.gen_value(S, cfg)
                if _same_value(nv, cur[j][0]):
                    continue
                cur[j][0] = nv
            elif kind == 'mult':
                cur[j][1] = cur[j][1] + 1 if cur[j][1] < 3 else 1
            elif kind == 'drop':
                del cur[j]
            else:
                cur.insert(j, list(cur[j]))
            ev = {'act': 'setloc', 'obj': h, 'loc': loc, 'mods': cur, 'why': 'perturb-' + kind}
            if not cur and loc[0] == 'internal':
                # the last modification of a residue was dropped: the client clears the list it holds (an EMPTY group
                # stays behind at that position) or pops the position
                ev['empty_list'] = S.coin(0.5)
            if not cur and loc[0] == 'interval':
                # the last modification of an interval was dropped: the client either clears the list it holds
                # (leaving an empty list in place) or removes it
                ev['empty_list'] = S.coin(0.6)
            _set_loc(m, loc, cur)
            return ev
        if kind == 'position':
            src = [i for i, r in enumerate(m.res) if r[1]]
            dst = [i for i, r in enumerate(m.res) if not r[1]]
            if not src or not dst:
                continue
            i, j = S.pick(src), S.pick(dst)
            ev = {'act': 'move', 'obj': h, 'from': i, 'to': j}
            m.res[j][1], m.res[i][1] = m.res[i][1], []
            return ev
        if kind == 'bound':
            if not m.intervals:
                continue
            k = S.randint(0, len(m.intervals) - 1)
            ivs = copy.deepcopy(m.intervals)
            s, e = ivs[k][0], ivs[k][1]
            lo = ivs[k - 1][1] if k > 0 else 0
            hi = ivs[k + 1][0] if k + 1 < len(ivs) else len(m)
            opts = []
            if s - 1 >= lo:
                opts.append((s - 1, e))
            if s + 1 < e:
                opts.append((s + 1, e))
            if e + 1 <= hi:
                opts.append((s, e + 1))
            if e - 1 > s:
                opts.append((s, e - 1))
            if s == e:
                # an empty interval can only move as a whole (its position is the one thing it has)
                opts = [(p, p) for p in (s - 1, s + 1) if 0 <= p <= len(m)]
            if not opts:
                continue
            ivs[k][0], ivs[k][1] = S.pick(opts)
            ev = {'act': 'intervals', 'obj': h, 'ivs': ivs, 'append': False, 'via': 'set', 'form': 'interval',
                  'why': 'perturb-bound'}
            m.intervals = ivs
            return ev
        if kind == 'charge':
            c = S.pick([c for c in (1, 2, 3, -1) if c != m.charge])
            m.charge = c
            return {'act': 'charge', 'obj': h, 'charge': c, 'via': 'set', 'why': 'perturb-charge'}
        if kind == 'ambiguous':
            if not m.intervals:
                continue
            k = S.randint(0, len(m.intervals) - 1)
            ivs = copy.deepcopy(m.intervals)
            ivs[k][2] = not ivs[k][2]
            m.intervals = ivs
            return {'act': 'intervals', 'obj': h, 'ivs': ivs, 'append': False, 'via': 'set', 'form': 'interval',
                    'why': 'perturb-ambiguous'}
        if kind == 'global':
            # one global annotation (isotope label, static rule, charge adduct) added, dropped or replaced
            f = S.pick(['isotope', 'static', 'adducts'])
            cur = [list(x) for x in getattr(m, f)]
            new = _gen_fieldval(S, cfg, f, 1)
            how = S.pick(['add', 'drop', 'replace'])
            if how == 'drop' and cur:
                del cur[S.randint(0, len(cur) - 1)]
            elif how == 'replace' and cur:
                j = S.randint(0, len(cur) - 1)
                if _same_value(cur[j][0], new[0][0]):
                    continue
                cur[j] = new[0]
            else:
                cur = cur + new
            if not cur:
                ev = {'act': 'pop', 'obj': h, 'what': f, 'scribble': False, 'k': 0, 'why': 'perturb-global'}
                setattr(m, f, [])
                return ev
            ev = {'act': 'field', 'obj': h, 'field': f, 'mods': cur, 'append': False, 'via': 'add', 'form': 'modlist',
                  'why': 'perturb-global'}
            setattr(m, f, cur)
            return ev
    return None


def _same_value(a, b):
    if isinstance(a, (int, float)) and isinstance(b, (int, float)):
        return float(a) == float(b)
    return a == b


# model effects ---------------------------------------------------------------------------------------------

def _m_field(m, f, val, append):
    val = [list(x) for x in val]
    if append:
        getattr(m, f).extend(val)
    else:
        setattr(m, f, val)


def _m_internal(m, d, append, via):
    if not append and via != 'add_internal_mod':
        for r in m.res:
            r[1] = []
    for k, v in d.items():
        v = [list(x) for x in v]
        if append:
            m.res[int(k)][1].extend(v)
        else:
            m.res[int(k)][1] = v


def _m_intervals(m, ivs, append):
    ivs = copy.deepcopy(ivs)
    if append:
        m.intervals.extend(ivs)
    else:
        m.intervals = ivs


def _m_pop(m, ev):
    w = ev['what']
    if w in FIELDS:
        setattr(m, w, [])
    elif w == 'internal_mod':
        m.res[ev['index']][1] = []
    elif w == 'internal':
        for r in m.res:
            r[1] = []
    elif w == 'intervals':
        m.intervals = []
    elif w == 'charge':
        m.charge = None
    elif w == 'all':
        m.strip()


def _m_moddict(m, items, append):
    pos = [(k, v) for k, v in items if isinstance(k, int)]
    for k, v in items:
        if k == 'charge':
            m.charge = v
        elif isinstance(k, str):
            _m_field(m, k, v, append)
    if pos:
        _m_internal(m, {str(k): v for k, v in pos}, append, 'add_internal_mods')


# ------------------------------------------------------------------------------------------ execution

def _mk(val, form):
    pt = Env.pt
    if val is None:
        return None
    if form == 'modlist':
        return [pt.Mod(v, k) for v, k in val]
    if form == 'mod':
        if len(val) == 1:
            return pt.Mod(val[0][0], val[0][1])
        return [pt.Mod(v, k) for v, k in val]
    if form == 'rawlist':
        return [v if k == 1 else pt.Mod(v, k) for v, k in val]
    if form == 'raw':
        if len(val) == 1 and val[0][1] == 1:
            return val[0][0]
        return [v if k == 1 else pt.Mod(v, k) for v, k in val]
    raise HarnessError(form)


def _mk_ivs(ivs, form):
    pt = Env.pt
    out = []
    for j, (s, e, amb, ms) in enumerate(ivs):
        as_iv = form == 'interval' or (form == 'mixed' and j % 2 == 0)
        if as_iv:
            out.append(pt.Interval(s, e, amb, [pt.Mod(v, k) for v, k in ms] if ms else None))
        else:
            out.append((s, e, amb, [v if k == 1 else pt.Mod(v, k) for v, k in ms] if ms else None))
    return out


class _Run(RunBase):
    PID = ID

    def __init__(self, plan):
        super().__init__(plan)
        self.live = {}
        self.models = {}
        self.lists = {}
        self.kept = []
        self.tainted = False

    def on_known(self):
        # adopt the implementation's state so that the run can go on exploring
        for h, x in self.live.items():
            self.models[h] = ModelPeptide.from_nf(N.norm_ann(x))

    def check_models(self, ev_i, ev, edited=None):
        """every live object equals its model"""
        self.out.oracle_checks += 1
        for h, x in self.live.items():
            cur = ModelPeptide.from_nf(N.norm_ann(x))
            d = cur.diff(self.models[h])
            if d is not None:
                opname = _opname(ev)
                if h == edited:
                    inv, what = 'MODEL', 'the edited object is not what the editor contract says'
                else:
                    inv, what = 'INDEP', f"object {h} changed although the event touched {edited or 'no object'}"
                if self.violation(inv, opname, d[0].split('[')[0],
                                  f"{inv}: after event {ev_i} ({opname}) {what}: field {d[0]}: live {d[1]!r} != "
                                  f"model {d[2]!r}", ev_i, {'object': h}):
                    return True
        return False

    def check_kept(self, ev_i, ev):
        for k, (d, nf, who) in enumerate(self.kept):
            self.out.oracle_checks += 1
            diff = N.same_strict(nf, N.norm(d))
            if diff is not None:
                self.kept[k] = (d, N.norm(d), who)
                if self.violation('INDEP', _opname(ev), 'kept-dict',
                                  f"INDEP: the field dictionary from which {who} was built changed across event {ev_i} "
                                  f"({_opname(ev)}): {diff}", ev_i):
                    return True
        return False

    def check_eq_matrix(self, ev_i, ev):
        hs = sorted(self.live)
        self.out.oracle_checks += 1
        for i, a in enumerate(hs):
            xa = self.live[a]
            try:
                if not (xa == xa):
                    if self.violation('EQ', 'reflexive', 'value', f"EQ: object {a} != itself after event {ev_i}", ev_i):
                        return True
            except Exception as e:
                if self.violation('EQ', 'raises', type(e).__name__, f"EQ: {a} == {a} raised {e!r}", ev_i):
                    return True
            for b in hs[i + 1:]:
                xb = self.live[b]
                exp = self.models[a].equal(self.models[b])
                try:
                    ab, ba = (xa == xb), (xb == xa)
                except Exception as e:
                    if self.violation('EQ', 'raises', type(e).__name__, f"EQ: {a} == {b} raised {e!r}", ev_i):
                        return True
                    continue
                if ab != ba:
                    if self.violation('EQ', 'symmetric', 'value',
                                      f"EQ: ({a} == {b}) is {ab} but ({b} == {a}) is {ba} after event {ev_i}", ev_i):
                        return True
                if ab != exp:
                    if exp and _empty_vs_none(xa, xb):
                        self.out.probes['eq_skipped_empty_vs_none'] += 1
                        continue
                    d = self.models[a].diff(self.models[b])
                    detail = 'missed-' + d[0].split('[')[0] if d else 'spurious'
                    if self.violation('EQ', 'sensitive' if not exp else 'insensitive', detail,
                                      f"EQ: ({a} == {b}) is {ab} after event {ev_i} ({_opname(ev)}) but the peptides "
                                      f"{'differ in ' + str(d) if d else 'are the same up to the order of modifications'}",
                                      ev_i):
                        return True
                if not exp:
                    self.out.probes['eq_negative_checked'] += 1
                else:
                    self.out.probes['eq_positive_checked'] += 1
        return False


def _empty_vs_none(a, b):
    for f in ('isotope_mods', 'static_mods', 'labile_mods', 'unknown_mods', 'nterm_mods', 'cterm_mods',
              'charge_adducts', 'intervals'):
        va, vb = getattr(a, f), getattr(b, f)
        if (va is None) != (vb is None) and not va and not vb:
            return True
    for x in (a, b):
        if x.intervals:
            for iv in x.intervals:
                if iv.mods is not None and len(iv.mods) == 0:
                    return True
    ia, ib = a.internal_mods, b.internal_mods
    if ia or ib:
        for k in set(ia or {}) | set(ib or {}):
            va = (ia or {}).get(k)
            vb = (ib or {}).get(k)
            if (va is None) != (vb is None) and not va and not vb:
                return True
    return False


def _opname(ev):
    a = ev['act']
    if a in ('field',):
        return f"{ev['via']}:{ev['field']}"
    if a in ('internal', 'intervals', 'charge', 'moddict'):
        return f"{a}:{ev['via']}"
    if a == 'pop':
        return f"pop:{ev['what']}"
    if a == 'view':
        return f"view:{ev['view']}"
    if a == 'setloc':
        return f"setloc:{ev['loc'][0]}"
    return a


def execute(plan):
    setup()
    pt = Env.pt
    run = _Run(plan)
    out = run.out
    try:
        for h, entry in plan['pool'].items():
            if entry['kind'] == 'ann':
                run.live[h] = world.build_ann(entry)
                run.models[h] = ModelPeptide.from_spec(entry['spec'])
            elif entry['kind'] == 'callerlist':
                run.lists[h] = _mk(entry['mods'], entry['form'])
    except world.BuildMismatch as e:
        out.probes['build_mismatch'] += 1
        out.record(['build_mismatch', str(e)[:200]])
        return out
    except Exception as e:
        out.probes['build_failed'] += 1
        out.record(['build_failed', N.norm_exc(e)])
        return out
    shape = []
    g0 = Env.G.cheap()
    for ev_i, ev in enumerate(plan['events']):
        out.events += 1
        act = ev['act']
        shape.append(_opname(ev))
        h = ev.get('obj')
        if h is not None and h not in run.live:
            out.record([ev_i, 'skip'])
            continue
        try:
            stop = _exec_event(run, ev_i, ev)
        except _LibError as e:
            # an editor raised: report (the contract says these calls succeed on these arguments)
            stop = run.violation('RAISES', _opname(ev), e.exc[1], f"RAISES: event {ev_i} ({_opname(ev)}) raised "
                                                                  f"{e.exc[1]}: {e.exc[2]}", ev_i)
            run.on_known()
        if stop:
            break
        out.record([ev_i, [N.norm_ann(x) for x in run.live.values()]])
        out.states.add(sha([run.models[k].canon() for k in sorted(run.models)]))
    if out.violation is None:
        gd = type(Env.G).diff_cheap(g0, Env.G.cheap())
        if gd is not None:
            run.violation('GLOBAL', 'run', gd, f"GLOBAL: the editor history disturbed process-wide state '{gd}'",
                          len(plan['events']) - 1)
    out.shape = sha(shape)
    out.nontrivial = len(run.live) >= 2 and out.oracle_checks > 2
    return out


class _LibError(Exception):
    def __init__(self, exc):
        self.exc = N.norm_exc(exc)


def _lib(fn, *a, **kw):
    try:
        return fn(*a, **kw)
    except HarnessError:
        raise
    except Exception as e:
        raise _LibError(e)


def _exec_event(run, ev_i, ev):
    pt = Env.pt
    out = run.out
    act = ev['act']
    h = ev.get('obj')
    x = run.live.get(h) if h else None
    m = run.models.get(h) if h else None
    edited = h
    if act == 'copy':
        src = run.live.get(ev['src'])
        if src is None:
            return False
        via = ev.get('via', 'copy')
        if via == 'deepcopy':
            c = _lib(copy.deepcopy, src)
        elif via == 'pickle':
            import pickle
            c = _lib(lambda: pickle.loads(pickle.dumps(src)))
        else:
            c = _lib(src.copy)
        out.probes['copies_via_' + via] += 1
        run.live[ev['out']] = c
        run.models[ev['out']] = run.models[ev['src']].clone()
        out.probes['copies'] += 1
        edited = None
        if c is src:
            return run.violation('INDEP', 'copy', 'identity', "INDEP: copy() returned the object itself", ev_i)
    elif act == 'rebuild':
        src = run.live.get(ev['src'])
        if src is None:
            return False
        d = _lib(src.dict)
        c = _lib(lambda: pt.create_annotation(**d))
        run.live[ev['out']] = c
        run.models[ev['out']] = run.models[ev['src']].clone()
        out.probes['rebuilds'] += 1
        if ev.get('out2'):
            c2 = _lib(lambda: pt.create_annotation(**d))
            run.live[ev['out2']] = c2
            run.models[ev['out2']] = run.models[ev['src']].clone()
            out.probes['rebuilds_from_one_kept_dict'] += 1
        # the caller keeps the dictionary: it must stay what it was whatever happens to the annotations built from it
        run.kept.append((d, N.norm(d), ev['out']))
        edited = None
    elif act == 'field':
        f = ev['field']
        if ev['form'] == 'handle':
            if ev['handle'] not in run.lists:
                return False
            val = run.lists[ev['handle']]
            out.faults['reuse'] += 1
        else:
            val = _mk(ev['mods'], ev['form'])
        via = ev['via']
        if via == 'add':
            if f == 'labile' and not isinstance(val, (list, pt.Mod)):
                val = [pt.Mod(val, 1)]
            _lib(getattr(x, ADD[f]), val, ev['append'])
        elif via == 'set':
            _lib(setattr, x, ATTR[f], val)
        elif via == 'moddict':
            _lib(x.add_mod_dict, {DKEY[f]: val}, ev['append'])
        elif via == 'ptadd':
            s = _lib(pt.add_mods, x, {DKEY[f]: val}, ev['append'])
            if s != x.serialize():
                return run.violation('MODEL', 'ptadd', 'returned-string',
                                     f"MODEL: pt.add_mods returned {s!r} but the edited annotation serializes to "
                                     f"{x.serialize()!r}", ev_i)
        _m_field(m, f, ev['mods'], ev['append'])
    elif act == 'internal':
        via = ev['via']
        d = {int(k): _mk(v, ev['form']) for k, v in ev['mods'].items()}
        if via == 'add_internal_mod':
            (k, v), = d.items()
            _lib(x.add_internal_mod, k, v, ev['append'])
        elif via == 'add_internal_mods':
            _lib(x.add_internal_mods, d, ev['append'])
        elif via == 'set':
            _lib(setattr, x, 'internal_mods', d)
        elif via == 'moddict':
            _lib(x.add_mod_dict, d, ev['append'])
        elif via == 'ptadd':
            _lib(pt.add_mods, x, d, ev['append'])
        _m_internal(m, ev['mods'], ev['append'], via)
    elif act == 'intervals':
        ivs = _mk_ivs(ev['ivs'], ev['form'])
        if ev['via'] == 'add':
            _lib(x.add_intervals, ivs, ev['append'])
        elif ev['via'] == 'set':
            _lib(setattr, x, 'intervals', ivs)
        else:
            _lib(x.add_mod_dict, {'intervals': ivs}, ev['append'])
        _m_intervals(m, ev['ivs'], ev['append'])
    elif act == 'charge':
        if ev['via'] == 'set':
            x.charge = ev['charge']
        elif ev['via'] == 'add_charge':
            _lib(x.add_charge, ev['charge'])
        else:
            _lib(x.add_mod_dict, {'charge': ev['charge']})
        m.charge = ev['charge']
    elif act == 'seq':
        s = x.sequence
        if ev['index'] >= len(s):
            return False
        x.sequence = s[:ev['index']] + ev['aa'] + s[ev['index'] + 1:]
        m.res[ev['index']][0] = ev['aa']
    elif act == 'pop':
        if _do_pop(run, ev_i, ev, x, m):
            return True
    elif act == 'strip':
        if ev['inplace']:
            r = _lib(x.strip, inplace=True)
            m.strip()
        else:
            r = _lib(x.strip, inplace=False)
            exp = m.clone()
            exp.strip()
            d = ModelPeptide.from_nf(N.norm_ann(r)).diff(exp)
            out.oracle_checks += 1
            if d is not None:
                if run.violation('STRIP', 'strip', d[0].split('[')[0],
                                 f"STRIP: strip() result differs from 'residues and nothing else': {d}", ev_i):
                    return True
            edited = None
    elif act == 'condense':
        if ev['inplace']:
            r = _lib(x.condense_static_mods, inplace=True)
            condense_static(m)
        else:
            r = _lib(x.condense_static_mods, inplace=False)
            exp = m.clone()
            condense_static(exp)
            if ev.get('out'):
                run.live[ev['out']] = r
                run.models[ev['out']] = exp
            else:
                d = ModelPeptide.from_nf(N.norm_ann(r)).diff(exp)
                if d is not None:
                    if run.violation('MODEL', 'condense', d[0].split('[')[0],
                                     f"MODEL: condense_static_mods() result differs from the explicit form: {d}", ev_i):
                        return True
            edited = None
        out.probes['condense_static'] += 1
    elif act == 'view':
        v = _view(pt, x, ev['view'])
        how = world.scribble(v, ev['k'], [])
        out.faults['scribble'] += 1
        out.record([ev_i, 'view', ev['view'], how])
        edited = None
    elif act == 'argscr':
        lst = run.lists.get(ev['list'])
        if lst is None:
            return False
        how = world.scribble(lst, ev['k'], [])
        out.faults['arg_scribble'] += 1
        out.record([ev_i, 'argscr', how])
        edited = None
    elif act == 'roundtrip':
        if _roundtrip(run, ev_i, ev, x, m):
            return True
        edited = None
    elif act == 'setloc':
        loc = ev['loc']
        val = _mk(ev['mods'], 'modlist')
        if loc[0] == 'field':
            if val:
                _lib(getattr(x, ADD[loc[1]]), val, False)
            else:
                _lib(getattr(x, POP[loc[1]]))
        elif loc[0] == 'internal':
            if val:
                _lib(x.add_internal_mod, loc[1], val, False)
            elif ev.get('empty_list') and x.get_internal_mods_by_index(loc[1]):
                del x.get_internal_mods_by_index(loc[1])[:]
                out.probes['residue_left_with_empty_mod_group'] += 1
            else:
                _lib(x.pop_internal_mod, loc[1])
        elif loc[0] == 'interval':
            ivs = x.intervals
            if ivs is None or loc[1] >= len(m.intervals):
                return False
            # the model's i-th interval, wherever the live list stores it (storage order is not state)
            ms, me = m.intervals[loc[1]][0], m.intervals[loc[1]][1]
            new = [pt.Interval(iv.start, iv.end, iv.ambiguous, copy.deepcopy(iv.mods)) for iv in ivs]
            hit = [iv for iv in new if iv.start == ms and iv.end == me]
            if len(hit) != 1:
                return False
            live = [iv for iv in ivs if iv.start == ms and iv.end == me]
            if not val and ev.get('empty_list') and live[0].mods:
                # the client clears, in place, the modification list of the interval it holds
                del live[0].mods[:]
                out.probes['interval_left_with_empty_mod_list'] += 1
            else:
                hit[0].mods = val or None
                x.intervals = new
        _set_loc(m, loc, ev['mods'])
        out.probes[ev.get('why', 'setloc')] += 1
    elif act == 'move':
        mods = _lib(x.pop_internal_mod, ev['from'])
        if mods is None:
            return False
        _lib(x.add_internal_mod, ev['to'], mods, True)
        m.res[ev['to']][1], m.res[ev['from']][1] = m.res[ev['from']][1], []
        out.probes['perturb-position'] += 1
    elif act == 'poke':
        loc = ev['loc']
        try:
            if loc[0] == 'field':
                lst = getattr(x, ATTR[loc[1]])
            elif loc[0] == 'internal':
                lst = x.get_internal_mods_by_index(loc[1])
            else:
                ms, me = m.intervals[loc[1]][0], m.intervals[loc[1]][1]
                lst = [iv for iv in x.intervals if iv.start == ms and iv.end == me][0].mods
            mod = lst[ev['j']]
        except Exception:
            return False
        # find the same modification in the model by value (order may differ)
        cur = _get_loc(m, loc)
        key = [mod.val, mod.mult]
        idx = None
        for j, c in enumerate(cur):
            if _same_value(c[0], key[0]) and c[1] == key[1]:
                idx = j
                break
        if idx is None:
            return False
        if ev['what'] == 'val':
            mod.val = ev['new']
            cur[idx][0] = ev['new']
        else:
            mod.mult = mod.mult + 1
            cur[idx][1] += 1
        out.faults['poke'] += 1
    elif act == 'moddict':
        d = {}
        for k, v in ev['items']:
            d[k if not isinstance(k, str) or k == 'charge' or k not in DKEY else DKEY[k]] = \
                v if k == 'charge' else _mk(v, ev['form'] if k != 'labile' else 'modlist')
        if ev['via'] == 'add_mod_dict':
            _lib(x.add_mod_dict, d, ev['append'])
        else:
            _lib(pt.add_mods, x, d, ev['append'])
        _m_moddict(m, ev['items'], ev['append'])
    else:
        raise HarnessError(f"unknown act {act}")
    if ev.get('why', '').startswith('perturb') or act == 'move':
        out.probes['single_field_perturbations'] += 1
        if act not in ('setloc', 'move'):
            out.probes[ev['why']] += 1
    if run.check_models(ev_i, ev, edited):
        return True
    if run.check_kept(ev_i, ev):
        return True
    return run.check_eq_matrix(ev_i, ev)


def _view(pt, x, view):
    if view == 'dict':
        return x.dict()
    if view == 'mod_dict':
        return x.mod_dict()
    if view == 'get_mods':
        return pt.get_mods(x)
    if view == 'copy':
        return x.copy()
    if view == 'pop_mods_fn':
        return pt.pop_mods(x)[1]
    if view == 'strip':
        return x.strip()
    if view == 'slice_all':
        return x.slice(None, None)
    raise HarnessError(view)


def _do_pop(run, ev_i, ev, x, m):
    pt = Env.pt
    w = ev['what']
    out = run.out

    def cmp_mods(got, exp, what):
        from sim.model import _canon_mods
        out.oracle_checks += 1
        g = _canon_mods([[mm.val, mm.mult] for mm in got]) if got else None
        e = _canon_mods(exp)
        if g != e:
            return run.violation('POP', f"pop:{w}", what, f"POP: pop of {what} returned {g!r}, the object held {e!r}",
                                 ev_i)
        return False

    if w in FIELDS:
        got = _lib(getattr(x, POP[w]))
        if cmp_mods(got, getattr(m, w), w):
            return True
        ret = got
    elif w == 'internal_mod':
        if ev['index'] >= len(m):
            return False
        got = _lib(x.pop_internal_mod, ev['index'])
        if cmp_mods(got, m.res[ev['index']][1], 'internal'):
            return True
        ret = got
    elif w == 'internal':
        got = _lib(x.pop_internal_mods)
        for i, r in enumerate(m.res):
            if cmp_mods((got or {}).get(i), r[1], 'internal'):
                return True
        ret = got
    elif w == 'intervals':
        ret = _lib(x.pop_intervals)
        exp = sorted((s, e, bool(a)) for s, e, a, _ in m.intervals)
        gotk = sorted((iv.start, iv.end, bool(iv.ambiguous)) for iv in (ret or []))
        if exp != gotk:
            if run.violation('POP', 'pop:intervals', 'intervals', f"POP: pop_intervals returned {gotk}, held {exp}",
                             ev_i):
                return True
    elif w == 'charge':
        ret = _lib(x.pop_charge)
        if ret != m.charge:
            if run.violation('POP', 'pop:charge', 'charge', f"POP: pop_charge returned {ret}, held {m.charge}", ev_i):
                return True
    elif w == 'all':
        ret = _lib(x.pop_mods)
        for f in FIELDS:
            if cmp_mods(ret.get(POPKEY[f]), getattr(m, f), f):
                return True
        for i, r in enumerate(m.res):
            if cmp_mods((ret.get('internal') or {}).get(i), r[1], 'internal'):
                return True
        if ret.get('charge') != m.charge:
            if run.violation('POP', 'pop:all', 'charge', f"POP: pop_mods charge {ret.get('charge')} != {m.charge}", ev_i):
                return True
    else:
        raise HarnessError(w)
    _m_pop(m, ev)
    if ev.get('scribble') and ret is not None:
        how = world.scribble(ret, ev['k'], [])
        if how:
            out.faults['scribble'] += 1
    return False


def _roundtrip(run, ev_i, ev, x, m):
    pt = Env.pt
    out = run.out
    out.oracle_checks += 1
    s = _lib(x.serialize)
    # (a) modification dictionary + stripped sequence reproduce the string
    try:
        stripped = pt.strip_mods(x)
        md = pt.get_mods(x)
        back = pt.add_mods(stripped, md)
    except Exception as e:
        return run.violation('ROUNDTRIP', 'get_add', 'raises', f"ROUNDTRIP: add_mods(strip_mods(x), get_mods(x)) raised "
                                                               f"{e!r} for {s!r}", ev_i)
    if back != s:
        if run.violation('ROUNDTRIP', 'get_add', 'string', f"ROUNDTRIP: add_mods(strip_mods(x), get_mods(x)) = {back!r} "
                                                           f"but serialize(x) = {s!r}", ev_i):
            return True
    # (a') the same on the STRING form of the peptide (what a str argument is parsed into is the library's business;
    # the round trip must give the string back)
    if any(iv[0] == iv[1] for iv in (m.intervals or [])):
        # the library's own string form of an empty interval does not re-parse in several positions (inside another
        # interval, at the end): parser/serializer territory (C01, not claimed) - the string route is not judged then
        out.probes['string_route_skipped_empty_interval'] += 1
        back_s = s
    else:
        back_s = None
    try:
        if back_s is None:
            back_s = pt.add_mods(pt.strip_mods(s), pt.get_mods(s))
    except Exception as e:
        return run.violation('ROUNDTRIP', 'get_add_str', 'raises', f"ROUNDTRIP: add_mods(strip_mods(s), get_mods(s)) on the "
                                                                   f"string {s!r} raised {e!r}", ev_i)
    if back_s != s:
        if run.violation('ROUNDTRIP', 'get_add_str', 'string', f"ROUNDTRIP: on the string form, add_mods(strip_mods(s), "
                                                               f"get_mods(s)) = {back_s!r} but s = {s!r}", ev_i):
            return True
    if stripped != m.seq:
        if run.violation('STRIP', 'strip_mods', 'seq', f"STRIP: strip_mods gave {stripped!r}, residues are {m.seq!r}",
                         ev_i):
            return True
    # (b) field dictionary rebuilds an equal annotation
    try:
        y = pt.create_annotation(**x.dict())
        eq = (y == x) and (x == y)
    except Exception as e:
        return run.violation('ROUNDTRIP', 'dict_create', 'raises', f"ROUNDTRIP: create_annotation(**x.dict()) raised {e!r}",
                             ev_i)
    d = ModelPeptide.from_nf(N.norm_ann(y)).diff(m)
    if d is not None or not eq:
        if run.violation('ROUNDTRIP', 'dict_create', d[0].split('[')[0] if d else 'eq',
                         f"ROUNDTRIP: create_annotation(**x.dict()) {'differs: ' + str(d) if d else 'compares unequal'} "
                         f"for {s!r}", ev_i):
            return True
    # (c) a copy is equal
    c = _lib(x.copy)
    d = ModelPeptide.from_nf(N.norm_ann(c)).diff(m)
    if d is not None or not (c == x):
        if run.violation('ROUNDTRIP', 'copy', d[0].split('[')[0] if d else 'eq',
                         f"ROUNDTRIP: copy() {'differs: ' + str(d) if d else 'compares unequal'} for {s!r}", ev_i):
            return True
    out.probes['roundtrips'] += 1
    return False


# ------------------------------------------------------------------------------------------ shrinking

def shrink_candidates(plan):
    from sim.props.c08 import _spec_shrinks
    for h0 in [k for k, v in plan['pool'].items() if v['kind'] == 'ann']:
        for cand in _spec_shrinks(plan['pool'][h0]['spec']):
            p2 = copy.deepcopy(plan)
            p2['pool'][h0]['spec'] = cand
            yield p2
    for i, ev in enumerate(plan['events']):
        if ev['act'] in ('field', 'setloc') and len(ev.get('mods') or []) > 1:
            p2 = copy.deepcopy(plan)
            p2['events'][i]['mods'] = ev['mods'][:1]
            yield p2
        if ev.get('form') not in (None, 'modlist', 'interval', 'handle') and ev['act'] in ('field', 'internal'):
            p2 = copy.deepcopy(plan)
            p2['events'][i]['form'] = 'modlist'
            yield p2
        if ev.get('via') in ('moddict', 'ptadd') and ev['act'] == 'field':
            p2 = copy.deepcopy(plan)
            p2['events'][i]['via'] = 'add'
            yield p2


RULE = ("seeded random editor history (8-25 events) on a generated source annotation, its copies and "
        "create_annotation(**dict()) rebuilds (up to 4 live objects): add_*/pop_*/setters/add_mod_dict/pt.add_mods/strip "
        "with values as Mod | raw | list | caller-owned list, pokes at Mod objects, scribbles on returned views, "
        "single-field perturbations and reorderings. Distinct = distinct sequence of event kinds; non-trivial = at "
        "least two live objects and more than two oracle comparisons.")
EXPECTED_PROBES = ['copies', 'rebuilds', 'condense_static', 'rebuilds_from_one_kept_dict', 'roundtrips', 'single_field_perturbations', 'eq_negative_checked',
                   'eq_positive_checked', 'perturb-value', 'perturb-mult', 'perturb-drop', 'perturb-dup',
                   'perturb-position', 'perturb-ambiguous', 'perturb-global', 'reorder']
ASSUMPTIONS = [
    "editor contract as read from the signatures: add_X(v, append) extends or replaces X; add_internal_mods / "
    "internal_mods setter / add_mod_dict with append=False replace all residue modifications; pop_X returns and clears",
    "an empty list and None are never generated apart; a pair of objects that differ only in [] vs None is not judged",
    "numerically equal values (1 vs 1.0) are the same modification value",
    "the search samples histories; a clean batch is evidence, not proof",
]
STUB_NOTE = ""
STATE_MEASURE = 'canonical form of the reference model of every live object after the event'
FAMILY_STARTS = [0]
