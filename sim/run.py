#!/venv/bin/python
"""
run.py - entry point.

  run.py check <ID> [--tier quick|thorough] [--runs N] [--budget S] [--workers W]
  run.py replay <file>
  run.py one <ID> <index> [--tier T]          (debug: run one seed verbosely)
  run.py selftest import | determinism [<ID>...] | sensitivity [<ID>...]

Exit codes: 0 property held on everything explored (KNOWN-FINDING lines possible), 1 violation (VIOLATION line),
2 harness trouble (never counted as "held").
"""
import argparse
import json
import os
import subprocess
import sys
import time

HERE = os.path.dirname(os.path.abspath(__file__))
sys.path.insert(0, os.path.dirname(HERE))

from sim import boot  # noqa: E402

boot.ensure_hashseed()

from sim import kernel, registry  # noqa: E402

VERIF = boot.VERIF
OUT = os.environ.get('VERIF_OUT', VERIF)   # where evidence / replays go (redirected by the sensitivity selftest)
TIERS = {
    # runs: number of seeds; budget: wall-clock cap in seconds (a cap, not a target)
    'C08': {'quick': {'runs': 100000, 'budget': 400}, 'thorough': {'runs': 900000, 'budget': 1700}},
    'C04': {'quick': {'runs': 6000, 'budget': 200}, 'thorough': {'runs': 120000, 'budget': 1700}},
    'C07': {'quick': {'runs': 12000, 'budget': 300}, 'thorough': {'runs': 300000, 'budget': 1700}},
    'C11': {'quick': {'runs': 50000, 'budget': 240}, 'thorough': {'runs': 1000000, 'budget': 1500}},
    'C20': {'quick': {'runs': 40000, 'budget': 240}, 'thorough': {'runs': 800000, 'budget': 1500}},
}


def seed_base():
    return int(os.environ.get('VERIF_SEED', '0')) * 10_000_019


def cmd_check(args):
    pid = args.id
    tier = args.tier or os.environ.get('VERIF_TIER') or 'quick'
    conf = TIERS[pid][tier]
    runs = args.runs or int(os.environ.get('VERIF_RUNS', conf['runs']))
    budget = args.budget or float(os.environ.get('VERIF_BUDGET_S', conf['budget']))
    workers = args.workers or int(os.environ.get('VERIF_WORKERS', min(16, os.cpu_count() or 1)))
    mod = registry.load(pid)
    base = seed_base()
    print(f"[{pid}] tier={tier} VERIF_SEED={os.environ.get('VERIF_SEED', '0')} seed_base={base} runs<={runs} "
          f"budget={budget}s workers={workers} hashseed={os.environ.get('PYTHONHASHSEED')} tree={boot.tree_id()}",
          flush=True)
    t0 = time.time()
    # run indices 0..runs-1; the PRNG seed of run i is base+i; the index selects systematic families
    total = kernel.run_batch(pid, [(base, i) for i in range(runs)], tier, workers=workers,
                             chunk=args.chunk or mod_chunk(mod), budget_s=budget,
                             opts={'child_timeout': 900})
    # the corpus: stored minimised histories that once told a faulty library from a correct one (one per seeded change,
    # see seeded/*/meta.json) are replayed on every check, each in a fresh process - what the generators produce may
    # drift as the harness grows, these histories do not
    corpus = load_corpus(pid)
    if corpus:
        res = kernel.eval_many(pid, [c['prefix'] + [c['plan']] for c in corpus], workers=workers)
        stale = 0
        for c, (tag, v) in zip(corpus, res):
            if tag != 'ok':
                stale += 1
            elif v is not None:
                total['violations'].append({'seed': c['plan']['header'].get('seed'), 'plan': c['plan'], 'violation': v,
                                            'prefix': c['prefix']})
        total['probes']['corpus_histories_replayed'] = len(corpus) - stale
        if stale:
            print(f"WARNING: {stale} stored corpus histories could not be executed by the current harness (stale)",
                  flush=True)
    wall = time.time() - t0
    rc = 0
    viol_lines = []
    if total['harness_errors']:
        for e in total['harness_errors'][:3]:
            print("HARNESS-ERROR", e, flush=True)
        rc = 2
    known = kernel.KnownFindings(os.path.join(VERIF, 'known_findings.json'))
    for e in known.for_property(pid):
        hits = total['known'].get(e['id'], 0)
        print(f"KNOWN-FINDING: property={pid} {e['what']} [id={e['id']} hits={hits}]", flush=True)
    nviol = 0
    seen_classes = set()
    for v in total['violations']:
        vc = tuple([v['violation'][k] for k in ('property', 'invariant', 'op', 'detail')])
        if vc in seen_classes or len(seen_classes) >= int(os.environ.get('VERIF_MAX_CLASSES', 4)):
            continue
        seen_classes.add(vc)
        path = report_violation(mod, pid, v)
        if path is None:
            rc = 2
            continue
        nviol += 1
        viol_lines.append(f"VIOLATION property={pid} replay={path}")
        if rc == 0:
            rc = 1
    # the hashseed fault: a sample of this batch is re-executed in a fresh interpreter under another PYTHONHASHSEED;
    # the digests over all normalised per-event results must be the same (reported apart from property violations)
    hs = hashseed_sample(pid, tier, base, min(total['runs'], runs))
    total['hashseed'] = hs
    if hs.get('checked'):
        total['faults']['hashseed'] = hs['checked']
    if hs.get('mismatches'):
        print(f"HARNESS-NONDETERMINISM: {hs['mismatches']} of {hs['checked']} sampled runs give other results under "
              f"PYTHONHASHSEED={hs['hashseed']} (indices {hs['bad'][:5]}) - hash order leaks into the library's results "
              f"or into the harness", flush=True)
        rc = rc or 2
    if nviol:
        rc = 1       # a confirmed, replayed violation outranks harness trouble elsewhere in the batch
    write_evidence(mod, pid, tier, base, total, wall, nviol)
    for ln in viol_lines:
        print(ln, flush=True)
    rate = total['runs'] / wall * 3600 if wall > 0 else 0
    print(f"[{pid}] {total['runs']} runs, {total['events']} events, {total['oracle_checks']} oracle checks, "
          f"{len(total['shapes'])} interleavings, {len(total['states'])} states in {wall:.1f}s "
          f"({rate:,.0f} runs/h); faults {dict(total['faults'])}; exit {rc}", flush=True)
    return rc


def load_corpus(pid):
    d = os.path.join(VERIF, 'corpus', pid)
    out = []
    if os.path.isdir(d) and not os.environ.get('VERIF_NO_CORPUS'):
        for fn in sorted(os.listdir(d)):
            if fn.endswith('.json'):
                with open(os.path.join(d, fn)) as f:
                    plan = json.load(f)
                prefix = plan.pop('prefix', [])
                plan.pop('violation', None)
                out.append({'file': fn, 'plan': plan, 'prefix': prefix})
    return out


def hashseed_sample(pid, tier, base, nruns, n=None):
    from sim import selftest
    n = n or int(os.environ.get('VERIF_HASHSEED_SAMPLE', 120 if tier == 'quick' else 600))
    if nruns < 10 or n <= 0:
        return {'checked': 0}
    mod = registry.load(pid)
    fams = [f for f in getattr(mod, 'FAMILY_STARTS', [0]) if f < nruns] or [0]
    per = max(1, n // len(fams))
    idxs = []
    for st in fams:
        idxs.extend(i for i in range(st, st + per) if i < nruns)
    here = kernel.run_batch(pid, [(base, i) for i in idxs], tier, chunk=40,
                            opts={'digests': True, 'stop_on_violation': False})['digests']
    other = {}
    hs = '424242'
    try:
        env = dict(os.environ, PYTHONHASHSEED=hs, VERIF_HASHSEED=hs, VERIF_IDX=json.dumps(idxs), VERIF_BASE=str(base),
                   VERIF_TIERX=tier)
        r = subprocess.run([sys.executable, os.path.join(HERE, 'run.py'), 'selftest', 'digests_of', pid],
                           capture_output=True, text=True, env=env, timeout=1800)
        for ln in r.stdout.splitlines():
            if ln.startswith('DIGESTS '):
                other = {int(k): v for k, v in json.loads(ln[8:]).items()}
    except Exception as e:  # pragma: no cover
        return {'checked': 0, 'error': repr(e)}
    bad = [i for i in idxs if here.get(base + i) != other.get(base + i)]
    return {'checked': len(idxs), 'mismatches': len(bad), 'bad': bad, 'hashseed': hs}


def mod_chunk(mod):
    return getattr(mod, 'CHUNK', 100)


def report_violation(mod, pid, v):
    """minimise, write the replay file, confirm in a fresh interpreter"""
    plan, viol = v['plan'], v['violation']
    vclass = [viol[k] for k in ('property', 'invariant', 'op', 'detail')]
    print(f"[{pid}] violation class {vclass} at index {plan['header'].get('index')} - minimising "
          f"({len(plan['events'])} events)", flush=True)
    try:
        small, v2, pre = kernel.minimise(pid, mod, plan, vclass, prefix=v.get('prefix'),
                                         budget_s=float(os.environ.get('VERIF_MIN_S', 45)))
    except Exception as e:  # pragma: no cover
        print("HARNESS-ERROR minimiser:", repr(e), flush=True)
        small, v2, pre = plan, viol, v.get('prefix') or []
    if v2 is None:
        print(f"HARNESS-NONDETERMINISM: violation {vclass} did not recur when the same plan was re-executed",
              flush=True)
        return None
    os.makedirs(os.path.join(OUT, 'replays'), exist_ok=True)
    path = os.path.join(OUT, 'replays', f"{pid}-{plan['header'].get('seed')}.json")
    small = dict(small)
    small['violation'] = v2
    if pre:
        # the violation depends on process-wide state left by earlier runs in the same process: they are part of
        # the replay (executed first, in this order)
        small['prefix'] = pre
    small['header'] = dict(small['header'], tree=boot.tree_id(), minimised_from=len(plan['events']),
                           hashseed=os.environ.get('PYTHONHASHSEED'))
    kernel.write_json(path, small)
    # fresh-process confirmation
    r = subprocess.run([sys.executable, os.path.join(HERE, 'run.py'), 'replay', path, '--quiet'],
                       capture_output=True, text=True, timeout=600)
    if r.returncode != 1:
        print(f"HARNESS-NONDETERMINISM: replay of {path} in a fresh interpreter exited {r.returncode}, expected 1\n"
              f"{r.stdout[-500:]}\n{r.stderr[-500:]}", flush=True)
        return None
    print(f"[{pid}] minimised to {len(small['events'])} events" +
          (f" after {len(pre)} preceding run(s) in the same process" if pre else "") +
          f": {v2['message'][:400]}", flush=True)
    return path


def write_evidence(mod, pid, tier, base, total, wall, nviol):
    os.makedirs(os.path.join(OUT, 'evidence'), exist_ok=True)
    probes = dict(total['probes'])
    zero = [p for p in getattr(mod, 'EXPECTED_PROBES', []) if not probes.get(p)]
    ev = {
        'property_id': pid, 'tier': tier, 'seed': int(os.environ.get('VERIF_SEED', '0')), 'level': 'exploration',
        'coverage': {
            'evaluations': int(total['runs']),
            'distinct_nontrivial': len(total['nontrivial']),
            'rule': getattr(mod, 'RULE', '') + (
                f" Restart fault: every {mod.COLD_EVERY}th run executes in a process that has executed nothing since "
                f"import." if getattr(mod, 'COLD_EVERY', 0) else ''),
            'samples': total['samples'][:3] or [{'note': 'no sample recorded'}],
            'events_executed': int(total['events']),
            'oracle_comparisons': int(total['oracle_checks']),
            'distinct_interleavings': len(total['shapes']),
            'distinct_abstract_states': len(total['states']),
            'abstract_state_measure': getattr(mod, 'STATE_MEASURE', ''),
            'fault_fires': dict(total['faults']),
            'probes': probes,
            'probes_stuck_at_zero': zero,
            'known_finding_hits': dict(total['known']),
            'runs_per_hour': int(total['runs'] / wall * 3600) if wall > 0 else 0,
            'seeds_per_hour': int(total['runs'] / wall * 3600) if wall > 0 else 0,
            'simulated_time': 'not applicable: the library reads no clock; history is ordered by event sequence '
                              'number',
            'seeds_planned': total['seeds_planned'], 'stopped_by_budget': bool(total['stopped_early']),
            'workers_retired_dirty': total['retired'],
            'real_vs_stub': 'all library code real (imported from /repo/src); stubbed: nothing' +
                            getattr(mod, 'STUB_NOTE', ''),
            'tree': boot.tree_id(),
            'hashseed_fault': total.get('hashseed', {}),
            'harness_errors': len(total['harness_errors']),
        },
        'assumptions': getattr(mod, 'ASSUMPTIONS', []),
        'wall_s': round(wall, 2),
        'violations': nviol,
    }
    kernel.write_json(os.path.join(OUT, 'evidence', f'{pid}.json'), ev)
    for p in zero:
        print(f"WARNING: probe '{p}' never fired in this batch", flush=True)


def cmd_replay(args):
    with open(args.file) as f:
        plan = json.load(f)
    pid = plan['header']['property']
    mod = registry.load(pid)
    if hasattr(mod, 'set_full_global'):
        mod.set_full_global(True)
    if not mod.clean_start():
        print("HARNESS-ERROR: process-wide state dirty at start")
        return 2
    for pre in plan.get('prefix', []):
        mod.execute(pre)
    out = mod.execute(plan)
    want = plan.get('violation')
    if out.violation is None:
        if not args.quiet:
            print(f"replay of {args.file}: no violation (property held on this trace)")
        return 0
    v = out.violation
    if not args.quiet:
        print(json.dumps(v, indent=1, default=repr)[:3000])
    if want and [want[k] for k in ('invariant', 'op', 'detail')] != [v[k] for k in ('invariant', 'op', 'detail')]:
        print(f"replay reproduced a different violation class than recorded: {v['invariant']}/{v['op']}/{v['detail']}")
    print(f"VIOLATION property={pid} replay={os.path.abspath(args.file)}")
    return 1


def cmd_one(args):
    mod = registry.load(args.id)
    tier = args.tier or 'quick'
    base = seed_base()
    idx = args.index
    plan = mod.gen_plan(kernel.Sched(base + idx), idx, tier)
    print(json.dumps(plan['header'], default=repr))
    for e in plan['events']:
        print('  ', json.dumps(e, default=repr)[:300])
    out = mod.execute(plan)
    print('events', out.events, 'checks', out.oracle_checks, 'faults', dict(out.faults), 'probes', dict(out.probes),
          'known', dict(out.known))
    if args.log:
        for it in out.log:
            print('   log', json.dumps(it, default=repr)[:400])
    print('violation', json.dumps(out.violation, indent=1, default=repr) if out.violation else None)
    print('digest', out.digest())
    return 0


def cmd_selftest(args):
    from sim import selftest
    return selftest.main(args.what, args.ids)


def main():
    ap = argparse.ArgumentParser()
    sub = ap.add_subparsers(dest='cmd', required=True)
    c = sub.add_parser('check')
    c.add_argument('id')
    c.add_argument('--tier')
    c.add_argument('--runs', type=int)
    c.add_argument('--budget', type=float)
    c.add_argument('--workers', type=int)
    c.add_argument('--chunk', type=int)
    r = sub.add_parser('replay')
    r.add_argument('file')
    r.add_argument('--quiet', action='store_true')
    o = sub.add_parser('one')
    o.add_argument('id')
    o.add_argument('index', type=int)
    o.add_argument('--tier')
    o.add_argument('--log', action='store_true')
    s = sub.add_parser('selftest')
    s.add_argument('what')
    s.add_argument('ids', nargs='*')
    args = ap.parse_args()
    rc = {'check': cmd_check, 'replay': cmd_replay, 'one': cmd_one, 'selftest': cmd_selftest}[args.cmd](args)
    sys.stdout.flush()
    sys.exit(rc)


if __name__ == '__main__':
    main()
