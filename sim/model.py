"""
model.py - ModelPeptide: the small executable reference model of an annotation (DESIGN.md appendix B).

State is plain Python data; every operation is a one-liner on it.  Comparison with a live annotation is under the
properties' own equivalence: the order of modifications at one position is irrelevant, an empty list and None are
the same, everything else is exact.
"""
import copy


def _canon_mods(ms):
    """multiset of (value, mult) as a sorted list of repr-keys (1 and 1.0 are different spellings but equal values:
    key on the numeric value)"""
    if not ms:
        return None
    out = []
    for m in ms:
        v, k = m[0], m[1]
        out.append((_vkey(v), k))
    return sorted(out)


def _vkey(v):
    if isinstance(v, bool):
        return ('b', v)
    if isinstance(v, (int, float)):
        return ('n', float(v))
    return ('s', str(v))


class ModelPeptide:
    FIELDS = ('labile', 'unknown', 'nterm', 'cterm', 'static', 'isotope', 'adducts')

    def __init__(self):
        self.res = []          # [letter, [[val, mult], ...]]
        self.labile, self.unknown, self.nterm, self.cterm = [], [], [], []
        self.static, self.isotope, self.adducts = [], [], []
        self.intervals = []    # [s, e, amb, mods|None]
        self.charge = None

    @classmethod
    def from_spec(cls, sp):
        m = cls()
        m.res = [[aa, [list(x) for x in sp['internal'].get(str(i), [])]] for i, aa in enumerate(sp['seq'])]
        for f in ('labile', 'unknown', 'nterm', 'cterm'):
            setattr(m, f, [list(x) for x in sp[f]])
        m.static = [[s, 1] for s in sp['static']]
        m.isotope = [[s, 1] for s in sp['isotope']]
        m.adducts = [[sp['adducts'], 1]] if sp['adducts'] else []
        m.intervals = [[s, e, amb, [list(x) for x in ms] if ms else None] for s, e, amb, ms in sp['intervals']]
        m.charge = sp['charge']
        return m

    @classmethod
    def from_nf(cls, nf):
        """adopt the state of a live annotation (from its norm.py dump)"""
        f = nf[1]
        m = cls()
        internal = {}
        for k, v in (f['internal'] or []):
            try:
                hash(k)
            except TypeError:
                k = repr(k)
            internal[k] = v if isinstance(v, list) and (not v or isinstance(v[0], list)) else [['raw', v]]
        m.res = [[aa, [_pair(x) for x in internal.get(i, [])]] for i, aa in enumerate(f['seq'] or '')]
        # residue modifications filed under something that is not a residue index (a client scribble that leaked
        # in, say) still count as state: keep them so that the comparison sees them
        junk = {repr(k): v for k, v in internal.items() if not (isinstance(k, int) and 0 <= k < len(f['seq'] or ''))}
        if junk:
            m.res.append(['?junk', [[repr(junk), 1]]])
        for mf, nfk in (('labile', 'labile'), ('unknown', 'unknown'), ('nterm', 'nterm'), ('cterm', 'cterm'),
                        ('static', 'static'), ('isotope', 'isotope'), ('adducts', 'adducts')):
            setattr(m, mf, [_pair(x) for x in (f[nfk] or [])])
        m.intervals = [[iv[1], iv[2], iv[3], [_pair(x) for x in iv[4]] if iv[4] else None]
                       for iv in (f['intervals'] or [])]
        m.charge = f['charge']
        return m

    def clone(self):
        return copy.deepcopy(self)

    @property
    def seq(self):
        return ''.join(r[0] for r in self.res)

    def __len__(self):
        return len(self.res)

    # ------------------------------------------------------------------ canonical form / comparison
    def canon(self):
        return {
            'seq': self.seq,
            'res': [_canon_mods(r[1]) for r in self.res],
            'labile': _canon_mods(self.labile), 'unknown': _canon_mods(self.unknown),
            'nterm': _canon_mods(self.nterm), 'cterm': _canon_mods(self.cterm),
            'static': _canon_mods(self.static), 'isotope': _canon_mods(self.isotope),
            'adducts': _canon_mods(self.adducts),
            'intervals': sorted(((s, e, bool(amb), _canon_mods(ms)) for s, e, amb, ms in self.intervals),
                                key=repr) or None,
            'charge': self.charge,
        }

    def diff(self, other):
        a, b = self.canon(), other.canon()
        for k in a:
            if a[k] != b[k]:
                if k == 'res':
                    for i, (x, y) in enumerate(zip(a[k], b[k])):
                        if x != y:
                            return f"res[{i}]", x, y
                return k, a[k], b[k]
        return None

    def equal(self, other):
        return self.diff(other) is None

    # ------------------------------------------------------------------ multiset of modified residues
    def residue_multiset(self):
        return sorted((r[0], tuple(_canon_mods(r[1]) or ())) for r in self.res)

    # ------------------------------------------------------------------ reorder / cut (C11)
    def reverse(self, swap_terms=False):
        n = len(self.res)
        self.res.reverse()
        if swap_terms:
            self.nterm, self.cterm = self.cterm, self.nterm
        self.intervals = [[n - e, n - s, amb, ms] for s, e, amb, ms in self.intervals]

    def shift(self, k):
        n = len(self.res)
        if n:
            k %= n
            self.res = self.res[k:] + self.res[:k]

    def permute(self, order):
        """order[new_index] = old_index"""
        self.res = [self.res[i] for i in order]

    def slice(self, i, j):
        n = len(self.res)
        out = self.clone()
        out.res = copy.deepcopy(self.res[i:j])
        if i > 0:
            out.nterm = []
        if j < n:
            out.cterm = []
        out.intervals = [[s - i, e - i, amb, copy.deepcopy(ms)] for s, e, amb, ms in self.intervals
                         if i <= s and e <= j and s < e]
        return out

    # ------------------------------------------------------------------ editors (C20)
    def strip(self):
        for r in self.res:
            r[1] = []
        for f in self.FIELDS:
            setattr(self, f, [])
        self.intervals = []
        self.charge = None


def _pair(x):
    # x is a norm.py mod dump ['mod', val, mult] or ['raw', val]
    if isinstance(x, list) and x and x[0] == 'mod':
        return [x[1], x[2]]
    if isinstance(x, list) and len(x) == 2 and x[0] == 'raw':
        return [repr(x[1]), 1]
    return [repr(x), 1]


def _canon_value(txt):
    try:
        return int(txt)
    except ValueError:
        try:
            return float(txt)
        except ValueError:
            return txt


def parse_static_rule(rule):
    """'[57][Formula:[13C2]H4]^2@C,N-Term' -> ([[57, 1], ['Formula:[13C2]H4', 2]], ['C', 'N-Term']) - the harness's own
    bracket-depth reader of the ProForma global-modification rule"""
    body, _, targets = rule.rpartition('@')
    mods = []
    i = 0
    while i < len(body):
        if body[i] != '[':
            i += 1
            continue
        depth, j = 1, i + 1
        while j < len(body) and depth:
            depth += body[j] == '['
            depth -= body[j] == ']'
            j += 1
        val = body[i + 1:j - 1]
        mult = 1
        if j < len(body) and body[j] == '^':
            k = j + 1
            while k < len(body) and (body[k].isdigit() or (k == j + 1 and body[k] in '+-')):
                k += 1
            mult = int(body[j + 1:k])
            j = k
        mods.append([_canon_value(val), mult])
        i = j
    return mods, targets.split(',')


def condense_static(m):
    """the explicit form of the global static rules: every rule's modifications appended to each target residue /
    terminus, the rules removed (model of condense_static_mods)"""
    rules = [r[0] for r in m.static]
    m.static = []
    for rule in rules:
        mods, targets = parse_static_rule(rule)
        for t in targets:
            if t == 'N-Term':
                m.nterm.extend(copy.deepcopy(mods))
            elif t == 'C-Term':
                m.cterm.extend(copy.deepcopy(mods))
            else:
                for r in m.res:
                    if r[0] == t:
                        r[1].extend(copy.deepcopy(mods))
