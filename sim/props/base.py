"""base.py - what the property modules share: library binding, known-finding / survey handling, clean-start logic."""
import os

from sim import boot, glob, norm as N, world
from sim.kernel import Outcome, Violation, KnownFindings

SURVEY = bool(os.environ.get('VERIF_SURVEY'))
ONLY = os.environ.get('VERIF_ONLY')


class Env:
    pt = None
    G = None
    KNOWN = None
    cheap0 = None
    full_global = False


def setup():
    if Env.pt is None:
        Env.pt = boot.import_library()
        N.bind(Env.pt)
        glob.bind(Env.pt)
        world.bind(Env.pt)
        Env.G = glob.Globals()
        Env.KNOWN = KnownFindings(os.path.join(boot.VERIF, 'known_findings.json'))
    return Env.pt


def clean_start():
    setup()
    c = Env.G.cheap()[1:]
    if Env.cheap0 is None:
        if Env.G.diff_full() is not None:
            return False
        Env.cheap0 = c
        return True
    if c != Env.cheap0:
        return False
    if Env.full_global:
        return Env.G.diff_full() is None
    return True


def chunk_end_clean():
    setup()
    return Env.G.diff_full() is None


def set_full_global(flag):
    Env.full_global = bool(flag)


def force_clean():
    setup()
    for name, f in world.DB_FILES.items():
        if glob.db_full([name])[name] != Env.G.full_db0[name]:
            getattr(Env.pt, name).reload_from_file(world.data_file(f))
    Env.cheap0 = None


class RunBase:
    PID = None

    def __init__(self, plan):
        self.plan = plan
        self.out = Outcome()

    def on_known(self):
        """hook: called after a known finding was hit (restore state, stop comparing tainted things)"""

    def violation(self, invariant, op, detail, message, ev_i, extra=None):
        """Returns True if the run must stop (a violation that is not a listed known finding)."""
        v = Violation(self.PID, invariant, op, detail, message, ev_i, extra).to_json()
        k = Env.KNOWN.match(v)
        if k is None and ONLY and '/'.join((invariant, op, detail)) == ONLY:
            self.out.violation = v
            return True
        if k is None and (SURVEY or ONLY):
            k = {'id': 'SURVEY ' + '/'.join(str(x) for x in (invariant, op, detail)) + ' :: ' + message[:300]}
        if k is not None:
            self.out.known[k['id']] += 1
            self.on_known()
            return False
        self.out.violation = v
        return True


def check_poison_consistent(plan):
    """A plan whose header says 'poisoned' must still hold the unresolvable value in its pool (a shrinking step that
    removes it would leave an oracle expecting a failure that can no longer happen): such a plan is not a plan."""
    import json
    from sim.kernel import HarnessError
    p = plan['header'].get('poisoned')
    if not p:
        return
    val = p[-1]
    if json.dumps(val)[1:-1] not in json.dumps(plan['pool']):
        raise HarnessError(f"inconsistent plan: header says poisoned {p} but the value is not in the pool")
