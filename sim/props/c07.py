"""
C07 - Digested peptides keep their modifications, their mass and their place.

Simulated: the results of digest() and of the semi- / non-enzymatic generators are suspended computations over the
caller's protein annotation.  A client opens several of them on one shared protein (different return types, rules,
missed cleavages, semi), and the scheduler interleaves their single steps with each other, with a second client's
queries on the same protein, with abandonment, and with an unresolvable modification in the protein.  Every yielded
item is checked against ModelPeptide.slice(s, e) of the protein model (residues, residue modifications on the same
residue, terminal modifications only with their terminus, global isotope and static rules present), the return types
opened on the same arguments must describe the same peptides whether consumed in lock-step or out of step, strings
re-parse to the annotations, every peptide is found again at its offset, and at exhaustion of a zero-missed-cleavage
digest the masses add up to the protein plus one water per cut.
"""
import copy
import random
import re

from sim import norm as N, spec as SP, world
from sim.kernel import HarnessError, sha
from sim.model import ModelPeptide
from sim.props import base
from sim.props.base import Env, RunBase

ID = 'C07'
CHUNK = 100
COLD_EVERY = 16      # restart fault: every 16th run executes in a process that has executed nothing since import
setup = base.setup
clean_start = base.clean_start
chunk_end_clean = base.chunk_end_clean
set_full_global = base.set_full_global
force_clean = base.force_clean

# the harness's own copy of the cleavage rules it uses (to keep generated intervals away from cut points)
RULES = {
    'trypsin': r'(?<=[KR])(?=[^P])', 'trypsin/P': r'(?<=[KR])', 'lys-c': r'(?<=K)', 'lys-n': r'(?=K)',
    'arg-c': r'(?<=R)', 'asp-n': r'(?=D)', 'glu-c': r'(?<=E)', 'chymotrypsin': r'(?<=[FWYL])(?!P)',
    'proalanase': r'(?<=[PA])', 'elastase': r'(?<=[AGSVLI])', '([KR])': None, '(?=D)': r'(?=D)', '(?<=K)': r'(?<=K)',
    # one rule whose matches have MIXED widths (a consumed residue or a look-behind): each match is a site of its own
    'D|(?<=K)': r'D|(?<=K)',
}
DRT = ['str', 'annotation', 'span', 'str-span', 'annotation-span']
WATER_MONO = 18.010564684
QUERIES = ['mass', 'fragment', 'split_partial', 'count_residues', 'permutations_slice', 'condense_to_mass_mods',
           'serialize', 'find_self', 'comp_mass', 'digest_other']


def own_sites(seq, rule):
    if rule == '([KR])':
        return sorted(set(m.start() + 1 for m in re.finditer(r'[KR]', seq)))
    pat = RULES[rule]
    # a zero-width match cuts where it stands, a match that consumes residues cuts behind its first residue
    return sorted(set(m.start() if m.end() == m.start() else m.start() + 1 for m in re.finditer(pat, seq)))


# ------------------------------------------------------------------------------------------ plan generation

def gen_plan(S, index, tier):
    header = {'property': ID, 'seed': S.seed, 'index': index, 'tier': tier}
    with_intervals = S.coin(0.3)
    allow = ['labile', 'static', 'isotope', 'nterm', 'cterm', 'internal'] + (['intervals'] if with_intervals else [])
    cfg = SP.swarm_cfg(S, maxlen=S.pick([6, 15, 40]), allow=allow, families=SP.MASSABLE, rare=False)
    cfg['minlen'] = 1
    # proteins need cleavable residues: bias the alphabet
    if S.coin(0.7):
        base_alpha = ''.join(S.sample(SP.STD, S.randint(2, 8)))
        cfg['alphabet'] = base_alpha + S.pick(['KR', 'KRP', 'DE', 'KRDE', 'K', 'FWYL', 'PA'])
        cfg['small_alpha'] = False
    if S.coin(0.25):
        cfg['alphabet'] = S.pick(['KR', 'RK', 'KRA', 'DKD', 'KP', 'RRA'])   # repetitive: overlapping occurrences
        cfg['small_alpha'] = False
    long_protein = S.coin(0.01)
    if long_protein:
        # beyond the stated bound (1..40), rarely: a protein-sized protein, digested with specific rules only
        cfg['minlen'], cfg['maxlen'], cfg['density'] = 257, S.pick([300, 420]), 0.05
        cfg['p']['intervals'] = 0.0
        header['long'] = True
    sp = SP.gen_pep(S, cfg)
    fault_free = S.coin(0.25)
    faults = [] if fault_free else [f for f in ('interleave', 'abandon', 'poison', 'rng', 'scribble') if S.coin(0.55)]
    rules = S.sample(sorted(RULES), S.randint(1, 3))
    semi_ok = True
    if sp['intervals']:
        # keep intervals that no cut of any rule in play can fall strictly inside; with semi / non-specific cuts
        # only one-residue intervals qualify
        sites = set()
        for r_ in rules:
            sites.update(own_sites(sp['seq'], r_))
        keep = []
        for iv in sp['intervals']:
            if not any(iv[0] < p < iv[1] for p in sites):
                keep.append(iv)
        sp['intervals'] = keep
        semi_ok = all(iv[1] - iv[0] == 1 for iv in keep)
    if long_protein:
        semi_ok = False          # no quadratic generators on protein-sized input
    poisoned = None
    if 'poison' in faults and S.coin(0.3):
        sp, where, val = SP.poison(S, sp)
        poisoned = [where, val]
    pool = {'P0': {'kind': 'ann', 'via': S.pick(['parse', 'create']), 'spec': sp}}
    if pool['P0']['via'] == 'create':
        pool['P0']['order'] = SP.gen_order(S, sp)
    proteins = ['P0']
    if S.coin(0.45):
        # a second protein with other global rules, digested at the same time (results of different proteins alive
        # together): same residue alphabet, its own modifications
        cfg2 = dict(cfg, p=dict(cfg['p'], intervals=0.0))
        sp2 = SP.gen_pep(S, cfg2)
        sp2['intervals'] = []
        pool['P1'] = {'kind': 'ann', 'via': S.pick(['parse', 'create']), 'spec': sp2}
        proteins.append('P1')
    n = len(sp['seq'])
    events = []
    open_l = []
    nl = 0
    ncalls = S.randint(2, 6)
    groups = 0
    guard = 0
    while groups < ncalls and guard < 60:
        guard += 1
        choices = [('open', 4.0)]
        if open_l:
            choices.append(('step', 8.0 if 'interleave' in faults else 3.0))
            choices.append(('drain', 1.5))
            if 'abandon' in faults:
                choices.append(('close', 1.0))
        if 'interleave' in faults:
            choices.append(('query', 3.0))
        if 'rng' in faults:
            choices.append(('rng', 0.5))
        if 'scribble' in faults and nl:
            choices.append(('scribble', 2.0))
        act = S.weighted(choices)
        if act == 'open':
            fn = S.weighted([('digest', 6), ('left', 0.7 if semi_ok else 0), ('right', 0.7 if semi_ok else 0),
                             ('semi', 0.7 if semi_ok else 0), ('non', 0.7 if semi_ok else 0), ('config', 0.7),
                             ('sequential', 0.8)])
            a = {'fn': fn}
            if fn in ('digest', 'config'):
                a.update({'enzyme': S.pick(rules) if S.coin(0.85) else S.sample(rules, min(2, len(rules))),
                          'mc': S.pick([0, 0, 0, 1, 2, 3]), 'semi': semi_ok and S.coin(0.2),
                          'min_len': S.pick([None, None, None, 1, 2, 4]), 'max_len': S.pick([None, None, None, 5, 12]),
                          'complete': S.coin(0.85), 'sort': S.coin(0.8)})
                if fn == 'config':
                    a['sort'] = True
            elif fn == 'sequential':
                a.update({'enzymes': [S.pick(rules), S.pick(rules)], 'mcs': [S.pick([0, 0, 1]), 0],
                          'min_len': None, 'max_len': S.pick([None, None, 8])})
            else:
                a.update({'min_len': S.pick([None, None, 1, 2]), 'max_len': S.pick([None, None, 3, 8])})
            # open the same arguments under several return types (the group), sharing or not sharing steps
            rts = S.sample(DRT, S.pick([1, 2, 2, 3, 5]))
            g = f'G{groups}'
            groups += 1
            prot = S.pick(proteins)
            for rt in rts:
                lh = f'L{nl}'
                nl += 1
                # the protein goes in as the caller's annotation object or in its string form (both documented); the
                # reference spans are asked for in either form as well
                events.append({'act': 'open', 'out': lh, 'group': g, 'args': a, 'rt': rt, 'client': 0, 'protein': prot,
                               'src': S.pick(['ann', 'ann', 'str']), 'span_src': S.pick(['ann', 'ann', 'str'])})
                if 'interleave' in faults or 'abandon' in faults:
                    open_l.append(lh)
                else:
                    events.append({'act': 'drain', 'lazy': lh, 'client': 0})
        elif act == 'step':
            events.append({'act': 'step', 'lazy': S.pick(open_l), 'client': 0, 'n': S.pick([1, 1, 1, 2, 3])})
        elif act == 'drain':
            lh = S.pick(open_l)
            open_l.remove(lh)
            events.append({'act': 'drain', 'lazy': lh, 'client': 0})
        elif act == 'close':
            lh = S.pick(open_l)
            open_l.remove(lh)
            events.append({'act': 'close', 'lazy': lh, 'client': 0})
        elif act == 'query':
            events.append({'act': 'query', 'op': S.pick(QUERIES), 'client': 1, 'sel': S.randint(0, 10 ** 6),
                           'protein': S.pick(proteins)})
        elif act == 'rng':
            events.append({'act': 'rng', 'n': S.randint(1, 99)})
        elif act == 'scribble':
            # the consumer edits a peptide it received (its own object now), while other results are still being produced
            events.append({'act': 'scribble', 'lazy': f'L{S.randint(0, nl - 1)}', 'k': S.randint(0, 999),
                           'how': S.pick(['node', 'node', 'static', 'isotope', 'labile', 'unknown', 'nterm'])})
    for lh in open_l:
        if S.coin(0.7):
            events.append({'act': 'drain', 'lazy': lh, 'client': 0})
    header.update({'mode': 'random', 'faults': faults, 'fault_free': fault_free, 'poisoned': poisoned, 'rules': rules,
                   'maxlen': cfg['maxlen'], 'with_intervals': bool(sp['intervals'])})
    return {'header': header, 'pool': pool, 'events': events}


# ------------------------------------------------------------------------------------------ execution

def _call(pt, protein, a, rt):
    fn = a['fn']
    if fn == 'digest':
        return pt.digest(protein, a['enzyme'], a['mc'], a['semi'], a['min_len'], a['max_len'], a['complete'], rt,
                         a['sort'])
    if fn == 'config':
        cfg = pt.EnzymeConfig(regex=a['enzyme'], missed_cleavages=a['mc'], semi_enzymatic=a['semi'],
                              complete_digestion=a['complete'])
        return pt.digest_from_config(protein, cfg, a['min_len'], a['max_len'], rt)
    if fn == 'sequential':
        cfgs = [pt.EnzymeConfig(regex=e, missed_cleavages=m) for e, m in zip(a['enzymes'], a['mcs'])]
        return pt.sequential_digest(protein, cfgs, a['min_len'], a['max_len'], rt)
    if fn == 'left':
        return pt.get_left_semi_enzymatic_sequences(protein, a['min_len'], a['max_len'], rt)
    if fn == 'right':
        return pt.get_right_semi_enzymatic_sequences(protein, a['min_len'] or 1, a['max_len'], rt)
    if fn == 'semi':
        return pt.get_semi_enzymatic_sequences(protein, a['min_len'] or 1, a['max_len'], rt)
    if fn == 'non':
        return pt.get_non_enzymatic_sequences(protein, a['min_len'], a['max_len'], rt)
    raise HarnessError(fn)


class _Run(RunBase):
    PID = ID

    def __init__(self, plan):
        super().__init__(plan)
        self.prot = {}       # handle -> {'p': live protein, 'm': model, 'nf': dump at build time}
        self.lazies = {}
        self.groups = {}     # group -> {lazy handle: [normalised peptide dumps by index]}
        self.calls_since = 0

    def on_known(self):
        for pr in self.prot.values():
            if N.same(pr['nf'], N.norm_ann(pr['p'])) is not None:
                world.restore(pr['p'], pr['nf'])


OPEN_FIELDS = ('labile', 'unknown', 'charge', 'adducts')


def _cmp(run, obj, exp, what, opname, ev_i):
    run.out.oracle_checks += 1
    cur = ModelPeptide.from_nf(N.norm_ann(obj))
    a, b = cur.canon(), exp.canon()
    for k in a:
        if k in OPEN_FIELDS:
            continue
        if a[k] != b[k]:
            x, y = a[k], b[k]
            if k == 'res':
                for i, (p, q) in enumerate(zip(a[k], b[k])):
                    if p != q:
                        x, y = (i, p), (i, q)
                        break
            return run.violation('PEPTIDE', opname, k, f"PEPTIDE: {what}: field {k}: library {x!r} != expected {y!r} "
                                                       f"(library peptide {obj.serialize()!r})", ev_i)
    return False


def execute(plan):
    setup()
    base.check_poison_consistent(plan)
    pt = Env.pt
    run = _Run(plan)
    out = run.out
    try:
        for h, entry in plan['pool'].items():
            if entry['kind'] == 'ann':
                pobj = world.build_ann(entry)
                run.prot[h] = {'p': pobj, 'm': ModelPeptide.from_spec(entry['spec']), 'nf': N.norm_ann(pobj)}
    except world.BuildMismatch as e:
        out.probes['build_mismatch'] += 1
        out.record(['build_mismatch', str(e)[:200]])
        return out
    except Exception as e:
        out.probes['build_failed'] += 1
        out.record(['build_failed', N.norm_exc(e)])
        return out
    random.seed(plan['header'].get('seed', 0) % 999979)
    shape = []
    for ev_i, ev in enumerate(plan['events']):
        out.events += 1
        act = ev['act']
        shape.append(act + ':' + str(ev.get('rt') or ev.get('op') or ''))
        g0 = Env.G.cheap()
        stop = False
        if act == 'open':
            stop = _do_open(run, ev_i, ev)
        elif act in ('step', 'drain', 'close'):
            stop = _do_lazy(run, ev_i, ev)
        elif act == 'query':
            _do_query(run, ev_i, ev)
            run.calls_since += 1
        elif act == 'rng':
            for _ in range(ev['n'] % 5 + 1):
                random.random()
            out.faults['rng'] += 1
            g0 = Env.G.cheap()
        elif act == 'scribble':
            stop = _do_scribble(run, ev_i, ev)
        else:
            raise HarnessError(act)
        if stop:
            break
        out.oracle_checks += 1
        d = _proteins_changed(run)
        if d is not None:
            if run.violation('ARG', act if act != 'open' else ev['args']['fn'], 'protein',
                             f"ARG: event {ev_i} ({act}) changed the shared protein: {d}", ev_i):
                break
        gd = type(Env.G).diff_cheap(g0, Env.G.cheap())
        if gd is not None:
            if gd == 'random':
                random.setstate(g0[0])
            if run.violation('GLOBAL', act, gd, f"GLOBAL: event {ev_i} ({act}) disturbed process-wide state '{gd}'", ev_i):
                break
        out.states.add(sha([[lz['k'], lz['done']] for lz in run.lazies.values()]))
    out.shape = sha(shape)
    out.nontrivial = len(run.lazies) >= 2 and out.oracle_checks > 3
    return out


def _proteins_changed(run):
    for h, pr in run.prot.items():
        d = N.same_strict(pr['nf'], N.norm_ann(pr['p']))
        if d is not None:
            return f"{h}: {d}"
    return None


def _do_open(run, ev_i, ev):
    pt = Env.pt
    out = run.out
    a, rt = ev['args'], ev['rt']
    opname = a['fn']
    ph = ev.get('protein', 'P0')
    if ph not in run.prot:
        ph = 'P0'
    pr = run.prot[ph]
    # expected spans: the same call with return_type='span' on a fresh private twin (spans are computed eagerly)
    twin = N.denorm(pr['nf'])
    if ev.get('span_src') == 'str':
        twin = twin.serialize()
        out.probes['spans_from_string_form'] += 1
    st = random.getstate()
    try:
        spans = [tuple(s) for s in _call(pt, twin, a, 'span')]
        span_err = None
    except Exception as e:
        spans, span_err = None, e
    finally:
        random.setstate(st)
    try:
        if ev.get('src') == 'str':
            out.probes['protein_in_string_form'] += 1
            gen = _call(pt, pr['p'].serialize(), a, rt)
        else:
            gen = _call(pt, pr['p'], a, rt)
    except Exception as e:
        out.record([ev_i, N.norm_exc(e)])
        if span_err is None:
            return run.violation('TYPES', opname, 'raises', f"TYPES: {opname}(return_type={rt!r}) raised {e!r} but "
                                                            f"return_type='span' works", ev_i)
        return False
    if span_err is not None:
        # e.g. semi-enzymatic generator with min_len None: both fail or both work
        try:
            first = next(gen, None)
        except Exception:
            return False
        return run.violation('TYPES', opname, 'span-raises', f"TYPES: {opname}(return_type='span') raised {span_err!r} but "
                                                             f"return_type={rt!r} yields {first!r}", ev_i)
    if len(run.prot) > 1:
        out.probes['lazy_results_of_two_proteins'] += 1
    run.lazies[ev['out']] = {'gen': gen, 'rt': rt, 'args': a, 'spans': spans, 'k': 0, 'done': False, 'group': ev['group'],
                             'prot': ph,
                             'calls_at_open': run.calls_since, 'masses': [], 'items': []}
    run.groups.setdefault(ev['group'], {})[ev['out']] = run.lazies[ev['out']]
    out.record([ev_i, 'open', len(spans)])
    run.calls_since += 1
    return False


def _do_lazy(run, ev_i, ev):
    pt = Env.pt
    out = run.out
    lz = run.lazies.get(ev['lazy'])
    if lz is None or lz['done']:
        out.record([ev_i, 'noop'])
        return False
    opname = lz['args']['fn']
    if ev['act'] == 'close':
        try:
            lz['gen'].close()
        except Exception as e:
            out.record([ev_i, N.norm_exc(e)])
        lz['done'] = True
        out.faults['abandon'] += 1
        if lz['k'] > 0:
            out.probes['abandoned_after_first_item'] += 1
        return False
    budget = ev.get('n', 1) if ev['act'] == 'step' else 10 ** 6
    if run.calls_since > lz['calls_at_open'] and lz['k'] > 0:
        out.faults['interleave'] += 1
        out.probes['lazy_stepped_across_a_call'] += 1
    while budget > 0 and not lz['done']:
        budget -= 1
        k = lz['k']
        try:
            item = next(lz['gen'])
        except StopIteration:
            lz['done'] = True
            out.oracle_checks += 1
            if k != len(lz['spans']):
                if run.violation('TYPES', opname, 'count', f"TYPES: {opname}(return_type={lz['rt']!r}) yielded {k} "
                                                           f"items, return_type='span' yields {len(lz['spans'])}", ev_i):
                    return True
            out.record([ev_i, k, 'stop'])
            if _mass_sum(run, ev_i, lz):
                return True
            break
        except Exception as e:
            lz['done'] = True
            out.record([ev_i, k, N.norm_exc(e)])
            if run.violation('RAISES', opname, type(e).__name__, f"RAISES: item {k} of {opname}(return_type={lz['rt']!r}) "
                                                                 f"raised {e!r}", ev_i):
                return True
            break
        out.record([ev_i, k, N.norm(item)])
        lz['k'] += 1
        # the protein must be as before after every single item, also inside a drain (a temporary edit that is
        # put back at exhaustion is visible to whoever looks in between)
        d = _proteins_changed(run)
        if d is not None:
            if run.violation('ARG', opname, 'protein', f"ARG: producing item {k} of {opname}(return_type={lz['rt']!r}) "
                                                        f"changed the shared protein: {d}", ev_i):
                return True
        if k >= len(lz['spans']):
            if run.violation('TYPES', opname, 'count', f"TYPES: {opname}(return_type={lz['rt']!r}) yields more items "
                                                       f"than return_type='span' ({len(lz['spans'])})", ev_i):
                return True
            continue
        if _check_item(run, ev_i, lz, k, item):
            return True
        if _check_kept(run, ev_i, lz):
            return True
    # ... and, once per event, the items kept from the OTHER lazy results on the same protein as well
    for other in run.lazies.values():
        if other is not lz and other.get('kept') and _check_kept(run, ev_i, other):
            return True
    return False


def _do_scribble(run, ev_i, ev):
    """The consumer edits, in place, one peptide annotation it was given.  Nothing else may move: not the protein (the
    per-event ARG check), not any other peptide it holds (STABLE, all results), not what is yielded afterwards (the
    per-item checks of later steps)."""
    pt = Env.pt
    out = run.out
    lz = run.lazies.get(ev['lazy'])
    kept = lz.get('kept') if lz else None
    if not kept:
        out.record([ev_i, 'noop'])
        return False
    k0, obj, nf0 = kept.pop(ev['k'] % len(kept))
    others = [pr['p'] for pr in run.prot.values()]
    for o in run.lazies.values():
        others.extend(x[1] for x in o.get('kept', []))
    how = ev.get('how', 'node')
    try:
        if how == 'static':
            obj.add_static_mods([pt.Mod('[15.994915]@M', 1)], append=True)
        elif how == 'isotope':
            obj.add_isotope_mods([pt.Mod('15N', 1)], append=True)
        elif how == 'labile':
            obj.add_labile_mods([pt.Mod('Glycan:HexNAc', 1)], append=True)
        elif how == 'unknown':
            obj.add_unknown_mods([pt.Mod('Phospho', 1)], append=True)
        elif how == 'nterm':
            obj.add_nterm_mods([pt.Mod('Acetyl', 1)], append=True)
        else:
            how = world.scribble(obj, ev['k'], others) or 'nothing'
    except Exception as e:
        out.record([ev_i, 'scribble', how, N.norm_exc(e)])
        return False
    out.faults['scribble'] += 1
    out.record([ev_i, 'scribble', how])
    for o in run.lazies.values():
        if o.get('kept') and _check_kept(run, ev_i, o, why=f"a sibling peptide was edited by its holder ({how})"):
            return True
    return False


def _check_kept(run, ev_i, lz, why=None):
    for (k0, obj, nf0) in lz.get('kept', []):
        run.out.oracle_checks += 1
        d = N.same_strict(nf0, N.norm_ann(obj))
        if d is not None:
            lz['kept'] = []
            return run.violation('STABLE', lz['args']['fn'], 'kept-item',
                                 f"STABLE: item {k0} of {lz['args']['fn']}(return_type={lz['rt']!r}), kept by the consumer, "
                                 f"changed after {why or 'later items were produced'}: {d}", ev_i)
    return False


def _check_item(run, ev_i, lz, k, item):
    pt = Env.pt
    out = run.out
    rt = lz['rt']
    opname = lz['args']['fn']
    span = lz['spans'][k]
    s, e = span[0], span[1]
    pep, got_span = None, None
    if rt == 'span':
        got_span = item
    elif rt in ('str-span', 'annotation-span'):
        if not (isinstance(item, tuple) and len(item) == 2):
            return run.violation('TYPES', opname, 'shape', f"TYPES: item {item!r} of return_type {rt!r} is not a pair", ev_i)
        pep, got_span = item
    else:
        pep = item
    if got_span is not None:
        out.oracle_checks += 1
        if tuple(got_span) != span:
            if run.violation('TYPES', opname, 'span', f"TYPES: item {k} of {opname}(return_type={rt!r}) has span "
                                                      f"{tuple(got_span)}, return_type='span' gives {span}", ev_i):
                return True
    if pep is None:
        lz['items'].append(None)
        return False
    want_str = rt.startswith('str')
    if want_str != isinstance(pep, str) or (not want_str and not isinstance(pep, pt.ProFormaAnnotation)):
        return run.violation('TYPES', opname, 'type', f"TYPES: item {k} of return_type {rt!r} is a {type(pep).__name__}",
                             ev_i)
    if isinstance(pep, str):
        try:
            ann = pt.parse(pep)
        except Exception as ex:
            return run.violation('REPARSE', opname, 'raises', f"REPARSE: peptide string {pep!r} (span {span}) does not "
                                                              f"parse: {ex!r}", ev_i)
        if not isinstance(ann, pt.ProFormaAnnotation):
            return run.violation('REPARSE', opname, 'multi', f"REPARSE: peptide string {pep!r} parses to several chains", ev_i)
    else:
        ann = pep
    pr = run.prot[lz['prot']]
    exp = pr['m'].slice(s, e)
    what = f"item {k} (span {span}, return_type {rt!r}) of {opname} on {N.denorm(pr['nf']).serialize()!r}"
    if _cmp(run, ann, exp, what, opname, ev_i):
        return True
    out.probes['peptide_vs_model'] += 1
    nf = N.norm_ann(ann)
    lz['items'].append(nf)
    # peptides the consumer keeps must stay what they were when they were handed out, whatever is produced later
    if not isinstance(pep, str):
        lz.setdefault('kept', []).append((k, pep, nf))
        if len(lz['kept']) > 8:
            del lz['kept'][0]
    # the return types opened on the same arguments describe the same peptides, in lock-step or out of step
    for oh, other in run.groups[lz['group']].items():
        if other is lz or k >= len(other['items']) or other['items'][k] is None:
            continue
        out.oracle_checks += 1
        d = N.same(nf, other['items'][k])
        out.probes['return_types_cross_checked'] += 1
        if d is not None:
            if run.violation('TYPES', opname, 'disagree',
                             f"TYPES: item {k} (span {span}) differs between return_type {rt!r} and {other['rt']!r} of "
                             f"the same {opname} call: {d}", ev_i):
                return True
    # found again in the protein at its offset (on private twins)
    if k < 10 or k % 7 == 0:
        out.oracle_checks += 1
        try:
            idx = pt.find_subsequence_indices(N.denorm(pr['nf']), N.denorm(nf))
        except Exception as ex:
            idx = ex
        out.probes['found_at_offset_checked'] += 1
        if not isinstance(idx, list) or s not in idx:
            if e > s:
                if run.violation('FOUND', opname, 'offset',
                                 f"FOUND: peptide {ann.serialize()!r} of span {span} is not found at offset {s} in "
                                 f"{N.denorm(pr['nf']).serialize()!r}: find_subsequence_indices gives {idx!r}", ev_i):
                    return True
    # mass bookkeeping for the conservation clause
    try:
        lz['masses'].append(pt.mass(ann))
    except Exception:
        lz['masses'].append(None)
    return False


def _mass_sum(run, ev_i, lz):
    """at exhaustion of a zero-missed-cleavage, complete, unfiltered, non-semi digest: masses add up"""
    pt = Env.pt
    out = run.out
    a = lz['args']
    if a['fn'] not in ('digest', 'config') or lz['rt'] == 'span':
        return False
    if a['mc'] != 0 or a['semi'] or a['min_len'] is not None or a['max_len'] is not None or not a['complete']:
        return False
    if run.plan['header'].get('poisoned'):
        return False
    pr = run.prot[lz['prot']]
    m = pr['m']
    if m.charge is not None or m.unknown or any('N-Term' in st[0] or 'C-Term' in st[0] for st in m.static):
        out.probes['mass_sum_not_judged_terminal_static'] += 1
        return False
    spans = lz['spans']
    n = len(m)
    # the pieces must tile the protein (non-specific digestion does not: every sub-span is returned)
    tiles = sorted(spans) and sorted(spans)[0][0] == 0 and all(x[1] == y[0] for x, y in zip(sorted(spans), sorted(spans)[1:])) \
        and sorted(spans)[-1][1] == n
    if not tiles:
        # Only the non-specific rule returns every sub-span. Under a specific rule (all rules the generator uses are
        # specific; the harness's own copy of them is in RULES) the zero-missed-cleavage peptides of a complete
        # digest do not overlap - overlapping pieces cannot add up to the protein plus one water per cut.
        rules_ = a['enzyme'] if isinstance(a['enzyme'], list) else [a['enzyme']]
        if n >= 1 and all(r_ in RULES for r_ in rules_) and len(spans) == len(lz['masses']):
            out.oracle_checks += 1
            sites_ = set()
            for r_ in rules_:
                sites_.update(own_sites(m.seq, r_))
            every = set(range(n + 1)) <= sites_
            return run.violation('MASSSUM', a['fn'], 'overlap-every-position-a-site' if every else 'overlap',
                                 f"MASSSUM: the zero-missed-cleavage peptides of {N.denorm(pr['nf']).serialize()!r} under "
                                 f"{rules_} have spans {sorted(spans)[:8]} that do not tile the protein, so their masses "
                                 f"cannot add up to the protein plus one water per cut", ev_i)
        return False
    if any(ms is None for ms in lz['masses']) or len(lz['masses']) != len(spans):
        return False
    try:
        total = pt.mass(N.denorm(pr['nf']))
        lab = 0.0
        if m.labile:
            # what the labile modification(s) weigh in the calculator under the protein's isotope labels
            lbl0 = ''.join(f'<{v}>' for v, _ in m.isotope)
            labs = ''.join(SP.fmt_mod(x, '{}') for x in m.labile)
            lab = pt.mass(labs + lbl0 + 'G') - pt.mass(lbl0 + 'G')
    except Exception:
        return False
    cuts = len(spans) - 1
    got = sum(lz['masses'])
    # one water per cut - as the mass calculator weighs it under the protein's isotope labels
    lbl = ''.join(f'<{v}>' for v, _ in m.isotope)
    try:
        water = 2 * pt.mass(lbl + 'G') - pt.mass(lbl + 'GG')
    except Exception:
        return False
    exp = total + cuts * water
    out.oracle_checks += 1
    out.probes['mass_sum_checked'] += 1
    tol = 1e-6 * max(1.0, abs(exp)) + 1e-5
    if abs(got - exp) <= tol:
        return False
    if m.labile and cuts and abs(got - (exp + cuts * lab)) <= tol:
        return run.violation('MASSSUM', a['fn'], 'labile-copied',
                             f"MASSSUM: the {len(spans)} zero-missed-cleavage peptides of {N.denorm(pr['nf']).serialize()!r} "
                             f"weigh {got:.6f}, protein + {cuts} water is {exp:.6f}: every peptide carries the labile "
                             f"modification(s) ({lab:.6f} each)", ev_i)
    return run.violation('MASSSUM', a['fn'], 'mass',
                         f"MASSSUM: the {len(spans)} zero-missed-cleavage peptides of {N.denorm(pr['nf']).serialize()!r} weigh "
                         f"{got:.6f}, protein + {cuts} water is {exp:.6f} (difference {got - exp:.6f})", ev_i)


def _do_query(run, ev_i, ev):
    pt = Env.pt
    p = run.prot.get(ev.get('protein', 'P0'), run.prot['P0'])['p']
    op = ev['op']
    run.out.probes['queries_by_second_client'] += 1
    try:
        if op == 'mass':
            pt.mass(p)
        elif op == 'fragment':
            if not (p.has_intervals() or p.has_unknown_mods()) and len(p) <= 20:
                pt.fragment(p, ['b', 'y'], 1)
            else:
                pt.mz(p, charge=2)
        elif op == 'split_partial':
            g = p.split()
            next(g, None)
            next(g, None)
            if ev['sel'] % 2:
                g.close()
        elif op == 'count_residues':
            pt.count_residues(p)
        elif op == 'permutations_slice':
            p.slice(0, min(3, len(p))).permutations()
        elif op == 'condense_to_mass_mods':
            pt.condense_to_mass_mods(p)
        elif op == 'serialize':
            p.serialize()
        elif op == 'find_self':
            pt.find_subsequence_indices(p, p)
        elif op == 'comp_mass':
            pt.comp_mass(p)
        elif op == 'digest_other':
            g = pt.digest(p, 'trypsin/P', 1, return_type='annotation')
            next(g, None)
    except Exception as e:
        run.out.record([ev_i, N.norm_exc(e)])
    return False


# ------------------------------------------------------------------------------------------ shrinking

def shrink_candidates(plan):
    from sim.props.c08 import _spec_shrinks
    for h in [k for k, v in plan['pool'].items() if v['kind'] == 'ann']:
        for cand in _spec_shrinks(plan['pool'][h]['spec']):
            p2 = copy.deepcopy(plan)
            p2['pool'][h]['spec'] = cand
            yield p2
    for i, ev in enumerate(plan['events']):
        if ev['act'] != 'open':
            continue
        a = ev['args']
        for k, simple in (('mc', 0), ('semi', False), ('min_len', None), ('max_len', None), ('complete', True),
                          ('sort', True)):
            if k in a and a[k] != simple:
                p2 = copy.deepcopy(plan)
                # the group shares its arguments: change all members
                for e2 in p2['events']:
                    if e2['act'] == 'open' and e2['group'] == ev['group']:
                        e2['args'][k] = simple
                yield p2


RULE = ("seeded random history on one generated protein of length 1-40 (residue, terminal, labile, static, isotope-label "
        "modifications; intervals that no cut can fall strictly inside): 2-6 groups of lazy results (digest with 13 "
        "protease rules / 1-2 rules at once, missed cleavages 0-3, semi, length bounds, partial digestion; "
        "digest_from_config; sequential_digest; the four semi-/non-enzymatic generators), each group opened under 1-5 "
        "return types on the same arguments, stepped one item at a time in scheduler order, interleaved with a second "
        "client's queries on the same protein, abandoned, or drained. Distinct = distinct sequence of (event kind, "
        "return type | query); non-trivial = at least two lazy results and more than three oracle comparisons.")
EXPECTED_PROBES = ['lazy_results_of_two_proteins', 'peptide_vs_model', 'return_types_cross_checked', 'found_at_offset_checked', 'mass_sum_checked',
                   'lazy_stepped_across_a_call', 'abandoned_after_first_item', 'queries_by_second_client']
ASSUMPTIONS = [
    "the span of the k-th item is the k-th span of the same call with return_type='span' on a fresh twin (which spans a "
    "rule defines is property C06, not claimed here)",
    "labile, unknown-position, charge and adduct annotations of a peptide are left open, as the statement is silent",
    "the mass-sum clause is judged only for proteins without terminal static rules, unknown-position modifications or a "
    "charge (a rule '@N-Term' by its own meaning modifies every new N-terminus)",
    "the search samples consumption schedules; a clean batch is evidence, not proof",
]
STUB_NOTE = ""
STATE_MEASURE = 'progress vector of all lazy results of the run (items consumed, exhausted or not, per result)'
FAMILY_STARTS = [0]
