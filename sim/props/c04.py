"""
C04 - Fragmentation enumerates every ion once and agrees with the mass calculator; the cached Fragmenter is a
projection of that same list.

Simulated: one or two cached Fragmenter objects per shared peptide (built from the shared annotation or from its
string, monoisotopic or average) are driven through a history of fragment() calls with different ion-type subsets,
charge / isotope lists, loss settings (the same losses list object re-used), precisions and all six return types,
interleaved with direct pt.fragment calls and other queries on the same annotation by a second client, scribbles on
returned lists and touches of Fragment cached properties.  Every response is checked against (a) pt.fragment on a
fresh private twin with the same configuration, (b) the definition oracle (one ion per type x cleavage position x
charge x isotope x applicable loss; numbering; carried modifications), (c) the public mass calculator on the ion's
own sequence, (d) projection of the 'fragment' return type, (e) to_dict stability.
"""
import copy
import math
import itertools
import random
import re

from sim import norm as N, spec as SP, world
from sim.kernel import HarnessError, sha
from sim.model import ModelPeptide
from sim.props import base
from sim.props.base import Env, RunBase

ID = 'C04'
CHUNK = 60
COLD_EVERY = 16      # restart fault: every 16th run executes in a process that has executed nothing since import
setup = base.setup
clean_start = base.clean_start
chunk_end_clean = base.chunk_end_clean
set_full_global = base.set_full_global
force_clean = base.force_clean

FWD, BWD = ['a', 'b', 'c'], ['x', 'y', 'z']
INT = ['ax', 'ay', 'az', 'bx', 'by', 'bz', 'cx', 'cy', 'cz']
ALL = FWD + BWD + INT + ['i']
RT = ['fragment', 'mass', 'mz', 'label', 'mass-label', 'mz-label']
WATER = ('[STED]', -18.01056)
AMMONIA = ('[RKNQ]', -17.02655)
QUERIES = ['mass', 'mz', 'comp_mass', 'split', 'count_residues', 'serialize', 'digest', 'condense_to_mass_mods',
           'permutations', 'copy', 'slice', 'is_subsequence']


# ------------------------------------------------------------------------------------------ plan generation

def _gen_cfg(S, want_rt=None):
    k = S.pick([1, 1, 2, 2, 3, 4])
    types = S.sample(ALL, k)
    if S.coin(0.5):
        types = [t for t in types if t not in INT] or [S.pick(FWD + BWD)]
    charges = S.pick([1, 2, 3, [1], [1, 2], [2, 1], [1, 3], [2, 4], [1, 2, 3]])
    isotopes = S.pick([0, 0, 0, 1, [0, 1], [0, 2], [1, 3], [0, 1, 2], [1, 0], [2, 0, 1], [3, 0]])   # any order
    custom = None
    if S.coin(0.4):
        # single-residue classes, multi-residue motifs and anchored patterns; values that may coincide with each
        # other or with the built-in water / ammonia losses
        custom = [[S.pick(['[ST]', 'K', '[DE]', 'P', 'A', '[KR]', 'M', 'DE', 'AA', 'K$', '^P', 'P[ST]', '[KR][KR]', 'E',
                           '[STED]', 'L.', '.K',
                           # classes that match residues they do not spell out
                           '[^P]', '[A-G]', '[^KR]$', '(?<=K).',
                           # one capturing group that may be empty or not take part in a match
                           'S(P)?', '(S)|T', '(K)?R', 'E(D)*']),
                   S.pick([-18.0, -17.5, -98.0, -10.25, 5.5, -18.01056, -17.02655, -18.01056, -1e-10, 5e-12])]   # incl. tiny, non-zero
                  for _ in range(S.randint(1, 2))]
        if len(custom) == 2 and custom[0][1] == custom[1][1]:
            custom = custom[:1]
    return {'ion_types': types if (len(types) > 1 or S.coin(0.5)) else types[0], 'charges': charges,
            'isotopes': isotopes, 'water_loss': S.coin(0.3), 'ammonia_loss': S.coin(0.3), 'losses': custom,
            'losses_handle': bool(custom) and S.coin(0.6), 'losses_single_tuple': bool(custom) and len(custom) == 1 and S.coin(0.3),
            'max_losses': S.pick([1, 1, 2, 3]), 'return_type': want_rt or S.pick(RT + ['fragment'] * 3),
            'precision': S.pick([None, None, None, 0, 2, 4, 6])}


def _mutate_cfg(S, base_cfg):
    c = copy.deepcopy(base_cfg)
    fresh = _gen_cfg(S)
    field = S.pick(['ion_types', 'charges', 'isotopes', 'water_loss', 'ammonia_loss', 'losses', 'max_losses',
                    'max_losses', 'return_type', 'precision', 'none'])
    if field == 'none':
        return c
    if field in ('water_loss', 'ammonia_loss'):
        c[field] = not c[field]
    elif field == 'max_losses':
        c[field] = S.pick([v for v in (1, 2, 3) if v != c[field]])
        if S.coin(0.5):
            c['water_loss'] = True       # make sure several losses are applicable
    elif field == 'losses':
        c['losses'] = fresh['losses']
        c['losses_handle'] = fresh['losses_handle']
        c['losses_single_tuple'] = fresh['losses_single_tuple']
    else:
        c[field] = fresh[field]
    return c


def gen_plan(S, index, tier):
    header = {'property': ID, 'seed': S.seed, 'index': index, 'tier': tier}
    allow = ['static', 'isotope', 'nterm', 'cterm', 'internal']
    if S.coin(0.15):
        allow = allow + ['labile']       # outside the stated quantifier, inside the domain: labile mods leave with the precursor
    cfg = SP.swarm_cfg(S, maxlen=S.pick([3, 6, 12]), allow=allow, families=SP.MASSABLE, rare=True)   # J, X now and then
    if S.coin(0.5):
        cfg['p']['isotope'] = 0.0      # labelled peptides are a configuration of their own
    if S.coin(0.06):
        # magnitudes: a delta mass a double can barely hold (sums that go through a running total lose the small terms)
        cfg['families'] = sorted(set(cfg['families']) | {'bigint'})
    sp = SP.gen_pep(S, cfg)
    fault_free = S.coin(0.25)
    faults = [] if fault_free else [f for f in ('poison', 'scribble', 'rng', 'reuse', 'interleave') if S.coin(0.5)]
    poisoned = None
    if 'poison' in faults and S.coin(0.4):
        sp, where, val = SP.poison(S, sp)
        while where == 'labile':
            sp['labile'] = []
            sp, where, val = SP.poison(S, sp)
        poisoned = [where, val]
    pool = {'A0': {'kind': 'ann', 'via': S.pick(['parse', 'create']), 'spec': sp}}
    if pool['A0']['via'] == 'create':
        pool['A0']['order'] = SP.gen_order(S, sp)
    if not sp['isotope'] and S.coin(0.12):
        header['emptied_isotope_list'] = True      # the label list is present but empty (its last label was removed)
    peps = ['A0']
    if S.coin(0.4) and not poisoned:
        # a sibling peptide with the SAME residues and other modifications, fragmented alongside (state keyed on the
        # residues, or shared between Fragmenter objects, only shows with two of them)
        sp2 = SP.gen_pep(S, cfg, length=len(sp['seq']))
        sp2['seq'] = sp['seq']
        sp2['static'] = [st for st in sp2['static'] if all(t in sp['seq'] or t in ('N-Term', 'C-Term')
                                                           for t in st.rpartition('@')[2].split(','))]
        pool['A1'] = {'kind': 'ann', 'via': S.pick(['parse', 'create']), 'spec': sp2}
        peps.append('A1')
    events = []
    nfr = 0
    nres = 0
    frs = []
    ncalls = S.randint(3, 10)
    # one losses list object shared by every call that asks for it
    shared_losses = [[S.pick(['[ST]', 'K', '[DE]', 'P', 'A']), S.pick([-18.0, -17.5, -98.0])]]
    for step in range(ncalls * 2):
        if len([e for e in events if e['act'] == 'frag']) >= ncalls:
            break
        choices = [('frag', 6.0)]
        if nfr < 2:
            choices.append(('new', 3.0 if nfr == 0 else 0.8))
        if 'interleave' in faults:
            choices.append(('query', 2.5))
        if 'scribble' in faults and nres:
            choices.append(('scribble', 1.5))
        if nres:
            choices.append(('todict', 1.5))
        if 'rng' in faults:
            choices.append(('rng', 0.7))
        if 'reuse' in faults and any(e['act'] == 'frag' and e['cfg'].get('losses_handle') for e in events):
            choices.append(('editlosses', 1.2))
        act = S.weighted(choices) if step > 0 else 'new'
        if act == 'new':
            fh = f'FR{nfr}'
            nfr += 1
            frs.append(fh)
            events.append({'act': 'new', 'out': fh, 'src': S.pick(['ann', 'ann', 'str']), 'mono': S.coin(0.7),
                           'pep': S.pick(peps)})
        elif act == 'frag':
            prev = [e['cfg'] for e in events if e['act'] == 'frag']
            if prev and S.coin(0.55):
                # a neighbour of an earlier call: the same configuration with exactly one setting changed (or none) -
                # what a cache keyed on too little cannot tell apart
                c = _mutate_cfg(S, S.pick(prev))
            else:
                c = _gen_cfg(S)
            if c['losses_handle'] and 'reuse' in faults:
                c['losses'] = shared_losses
            else:
                c['losses_handle'] = False
            # the client keeps ONE ion-type list, ONE charge list and ONE isotope list of its own for the whole run,
            # edits them in place to the settings of each call and passes the same objects every time
            c['own_lists'] = 'reuse' in faults and S.coin(0.6)
            via = (frs[0] if S.coin(0.7) else S.pick(frs)) if frs and S.coin(0.8) else 'direct'
            ev = {'act': 'frag', 'via': via, 'cfg': c, 'mono': S.coin(0.7), 'out': f'R{nres}', 'sel': S.randint(0, 10 ** 6),
                  'client': S.randint(0, 1), 'pep': S.pick(peps), 'late_read': 'scribble' in faults and S.coin(0.3)}
            nres += 1
            events.append(ev)
            if S.coin(0.35) and c['return_type'] != 'fragment':
                pass
        elif act == 'query':
            events.append({'act': 'query', 'op': S.pick(QUERIES), 'client': 1, 'sel': S.randint(0, 10 ** 6),
                           'pep': S.pick(peps)})
        elif act == 'scribble':
            events.append({'act': 'scribble', 'res': f'R{S.randint(0, nres - 1)}', 'k': S.randint(0, 999)})
        elif act == 'todict':
            events.append({'act': 'todict', 'res': f'R{S.randint(0, nres - 1)}', 'i': S.randint(0, 99),
                           'touch': S.pick(['label', 'number', 'both'])})
        elif act == 'rng':
            events.append({'act': 'rng', 'n': S.randint(1, 99)})
        elif act == 'editlosses':
            # the client edits its own shared losses list in place and goes on passing the same object
            events.append({'act': 'editlosses', 'how': S.randint(0, 2),
                           'loss': [S.pick(['[ST]', 'K', '[DE]', 'P', 'A', 'E', '[KR]']), S.pick([-18.0, -17.5, -98.0, -10.25, 5.5])]})
    header.update({'mode': 'random', 'faults': faults, 'fault_free': fault_free, 'poisoned': poisoned,
                   'maxlen': cfg['maxlen']})
    return {'header': header, 'pool': pool, 'events': events, 'shared_losses': shared_losses}


# ------------------------------------------------------------------------------------------ the definition oracle

def _aslist(v):
    return v if isinstance(v, list) else [v]


def expected_spans(n, ion_type):
    if ion_type in FWD:
        return [(0, k) for k in range(n, 0, -1)]
    if ion_type in BWD:
        return [(k, n) for k in range(0, n)]
    if ion_type in INT:
        return [(i, j) for i in range(1, n) for j in range(i + 1, n)]
    if ion_type == 'i':
        return [(k, k + 1) for k in range(n)]
    raise HarnessError(ion_type)


def expected_number(ion_type, n, s, e):
    if ion_type in FWD:
        return e
    if ion_type in BWD:
        return n - s
    if ion_type in INT:
        return f'{s}-{e}'
    return s


def applicable_losses(unmod, rules, max_losses):
    app = []
    for rx, val in rules:
        app.extend([val] * len(re.findall(rx, unmod)))
    out = set(app)
    for k in range(2, max_losses + 1):
        for comb in itertools.combinations(app, k):
            out.add(sum(comb))
    out.add(0.0)
    return out


def _lkey(x):
    return round(float(x), 6)


def effective_rules(cfg):
    rules = [tuple(r) for r in (cfg['losses'] or [])]
    if cfg['water_loss']:
        rules.append(WATER)
    if cfg['ammonia_loss']:
        rules.append(AMMONIA)
    return rules


def expected_keys(seq, cfg):
    """multiset (as sorted list) of (ion_type, start, end, charge, isotope, loss) the property demands"""
    n = len(seq)
    rules = effective_rules(cfg)
    keys = []
    for t in _aslist(cfg['ion_types']):
        for s, e in expected_spans(n, t):
            for loss in applicable_losses(seq[s:e], rules, cfg['max_losses']):
                for iso in _aslist(cfg['isotopes']):
                    for c in _aslist(cfg['charges']):
                        keys.append((t, s, e, c, iso, _lkey(loss)))
    return sorted(keys, key=repr)


def expected_label(t, c, number, loss, iso):
    return '+' * c + t + str(number) + (f'({loss})' if loss != 0.0 else '') + '*' * iso


# ------------------------------------------------------------------------------------------ execution

class _Run(RunBase):
    PID = ID

    def __init__(self, plan):
        super().__init__(plan)
        self.peps = {}      # handle -> {'a': live annotation, 'm': model, 'nf': dump at build time}
        self.cur = 'A0'     # the peptide the current event works on
        self.frs = {}       # handle -> {'obj', 'mono', 'pep'}
        self.results = {}   # handle -> list or None
        self.losses = None
        self.losses_nf = None

    @property
    def a(self):
        return self.peps[self.cur]['a']

    @property
    def m(self):
        return self.peps[self.cur]['m']

    @property
    def a_nf(self):
        return self.peps[self.cur]['nf']


def _tol(cfg, mono):
    if cfg['precision'] is not None:
        return 0.5 * 10 ** (-cfg['precision']) + 1e-6
    return 1e-6


def execute(plan):
    setup()
    base.check_poison_consistent(plan)
    pt = Env.pt
    run = _Run(plan)
    out = run.out
    hdr = plan['header']
    try:
        for h, entry in plan['pool'].items():
            if entry['kind'] == 'ann':
                obj = world.build_ann(entry)
                run.peps[h] = {'a': obj, 'm': ModelPeptide.from_spec(entry['spec']), 'nf': N.norm_ann(obj)}
    except world.BuildMismatch as e:
        out.probes['build_mismatch'] += 1
        out.record(['build_mismatch', str(e)[:200]])
        return out
    except Exception as e:
        out.probes['build_failed'] += 1
        out.record(['build_failed', N.norm_exc(e)])
        return out
    if hdr.get('emptied_isotope_list'):
        for pp in run.peps.values():
            if not pp['a'].isotope_mods:
                pp['a'].isotope_mods = []
                if pp['a'].isotope_mods is not None:
                    out.probes['label_list_present_but_empty'] += 1
                pp['nf'] = N.norm_ann(pp['a'])
    run.losses = [tuple(x) for x in plan.get('shared_losses', [])]
    run.losses_nf = N.norm(run.losses)
    run.own = {'ion_types': [], 'charges': [], 'isotopes': []}
    random.seed(hdr.get('seed', 0) % 999983)
    shape = []
    for ev_i, ev in enumerate(plan['events']):
        out.events += 1
        act = ev['act']
        shape.append(act + ':' + str(ev.get('via') or ev.get('op') or ''))
        stop = False
        g0 = Env.G.cheap()
        run.cur = ev.get('pep', 'A0') if ev.get('pep', 'A0') in run.peps else 'A0'
        if act == 'frag' and ev.get('via') in run.frs:
            run.cur = run.frs[ev['via']]['pep']
        if act == 'new':
            stop = _do_new(run, ev_i, ev)
        elif act == 'frag':
            stop = _do_frag(run, ev_i, ev)
        elif act == 'query':
            stop = _do_query(run, ev_i, ev)
        elif act == 'scribble':
            r = run.results.get(ev['res'])
            if r is not None:
                how = world.scribble(r, ev['k'], [pp['a'] for pp in run.peps.values()] + [run.losses])
                if how:
                    out.faults['scribble'] += 1
                run.results[ev['res']] = None
        elif act == 'todict':
            stop = _do_todict(run, ev_i, ev)
        elif act == 'rng':
            for _ in range(ev['n'] % 5 + 1):
                random.random()
            out.faults['rng'] += 1
            g0 = Env.G.cheap()
        elif act == 'editlosses':
            new = tuple(ev['loss'])
            if ev['how'] == 0 or not run.losses:
                if all(new[1] != x[1] for x in run.losses):
                    run.losses.append(new)
            elif ev['how'] == 1:
                if all(new[1] != x[1] for x in run.losses[1:]):
                    run.losses[0] = new
            elif len(run.losses) > 1:
                del run.losses[-1]
            run.losses_nf = N.norm(run.losses)
            out.faults['owneredit'] += 1
        else:
            raise HarnessError(act)
        if stop:
            break
        # shared arguments unchanged, process-wide state undisturbed (cheap forms)
        out.oracle_checks += 1
        d = None
        for hh, pp in run.peps.items():
            d = N.same_strict(pp['nf'], N.norm_ann(pp['a']))
            if d is not None:
                d = f"{hh}: {d}"
                break
        if d is not None:
            if run.violation('ARG', act, 'annotation', f"ARG: event {ev_i} ({act}) changed a shared annotation: {d}", ev_i):
                break
            for pp in run.peps.values():
                if N.same(pp['nf'], N.norm_ann(pp['a'])) is not None:
                    world.restore(pp['a'], pp['nf'])
        d = N.same(run.losses_nf, N.norm(run.losses))
        if d is not None:
            if run.violation('ARG', act, 'losses', f"ARG: event {ev_i} ({act}) changed the shared losses list: {d}", ev_i):
                break
            run.losses[:] = N.denorm(run.losses_nf)
        gd = type(Env.G).diff_cheap(g0, Env.G.cheap())
        if gd is not None:
            if run.violation('GLOBAL', act, gd, f"GLOBAL: event {ev_i} ({act}) disturbed process-wide state '{gd}'", ev_i):
                break
        c_ = ev.get('cfg') or {}
        # abstract state: what was asked (the full configuration of a fragment call, not the peptide) by whom
        out.states.add(sha([act, len(run.frs), 'direct' if ev.get('via') == 'direct' else 'fragmenter',
                            [c_.get(k_) for k_ in ('ion_types', 'charges', 'isotopes', 'water_loss', 'ammonia_loss',
                                                   'max_losses', 'return_type', 'precision')],
                            len(c_.get('losses') or [])]))
    out.shape = sha(shape)
    out.nontrivial = sum(1 for e in plan['events'] if e['act'] == 'frag') >= 2 and out.oracle_checks > 3
    return out


def _valueerror(e):
    return isinstance(e, ValueError)


def _do_new(run, ev_i, ev):
    pt = Env.pt
    out = run.out
    src = run.a if ev['src'] == 'ann' else run.a.serialize()
    poisoned = run.plan['header'].get('poisoned')
    try:
        fr = pt.Fragmenter(src, ev['mono'])
    except Exception as e:
        out.record([ev_i, N.norm_exc(e)])
        if poisoned:
            out.faults['poison'] += 1
            if not _valueerror(e):
                return run.violation('POISON', 'Fragmenter', type(e).__name__,
                                     f"POISON: Fragmenter() on a peptide with unresolvable modification {poisoned} raised "
                                     f"{e!r}, not a ValueError-family error", ev_i)
            return False
        return run.violation('RAISES', 'Fragmenter', type(e).__name__, f"RAISES: Fragmenter({src!r}) raised {e!r}", ev_i)
    if poisoned:
        return run.violation('POISON', 'Fragmenter', 'no-error',
                             f"POISON: Fragmenter() accepted a peptide with unresolvable modification {poisoned}", ev_i)
    run.frs[ev['out']] = {'obj': fr, 'mono': ev['mono'], 'pep': run.cur}
    if len(run.peps) > 1:
        out.probes['fragmenters_on_sibling_peptides'] += 1
    out.record([ev_i, 'fragmenter'])
    return False


def _kwargs(run, cfg):
    losses = None
    if cfg['losses']:
        if cfg.get('losses_handle'):
            losses = run.losses
        elif cfg.get('losses_single_tuple'):
            losses = tuple(cfg['losses'][0])
        else:
            losses = [tuple(x) for x in cfg['losses']]
    own = {}
    for f in ('ion_types', 'charges', 'isotopes'):
        if cfg.get('own_lists') and isinstance(cfg[f], list):
            run.own[f][:] = cfg[f]              # edited in place; the same object as in the client's earlier calls
            own[f] = run.own[f]
            run.out.probes['own_settings_list_edited_in_place_between_calls'] += 1
        else:
            own[f] = copy.deepcopy(cfg[f])
    return dict(ion_types=own['ion_types'], charges=own['charges'],
                isotopes=own['isotopes'], water_loss=cfg['water_loss'],
                ammonia_loss=cfg['ammonia_loss'], losses=losses, max_losses=cfg['max_losses'],
                return_type=cfg['return_type'], precision=cfg['precision'])


def _no_parent(nf):
    """a dump without Fragment.parent_sequence (the back-reference to the caller's annotation, which the caller has
    just edited on purpose)"""
    if isinstance(nf, list):
        if len(nf) == 2 and nf[0] == 'frag' and isinstance(nf[1], dict):
            return ['frag', {k: v for k, v in nf[1].items() if k != 'parent_sequence'}]
        return [_no_parent(x) for x in nf]
    return nf


def _do_frag(run, ev_i, ev):
    pt = Env.pt
    out = run.out
    cfg = dict(ev['cfg'])
    if cfg.get('losses_handle'):
        cfg['losses'] = [list(x) for x in run.losses]
        cfg['losses_single_tuple'] = False     # the shared list is passed as it is now (the client may have edited it)
        out.faults['reuse'] += 1
    poisoned = run.plan['header'].get('poisoned')
    via = ev['via']
    if via != 'direct' and via not in run.frs:
        via = 'direct'
    mono = run.frs[via]['mono'] if via != 'direct' else ev['mono']
    kw = _kwargs(run, cfg)
    try:
        if via == 'direct':
            res = pt.fragment(run.a, monoisotopic=mono, **kw)
        else:
            res = run.frs[via]['obj'].fragment(**kw)
            out.probes['fragmenter_calls'] += 1
    except Exception as e:
        out.record([ev_i, N.norm_exc(e)])
        if poisoned:
            out.faults['poison'] += 1
            if not _valueerror(e):
                return run.violation('POISON', 'fragment', type(e).__name__,
                                     f"POISON: fragment on a peptide with unresolvable modification {poisoned} raised {e!r}",
                                     ev_i)
            return False
        return run.violation('RAISES', 'fragment', type(e).__name__,
                             f"RAISES: fragment via {via} with {cfg} raised {e!r} on {run.a.serialize()!r}", ev_i)
    if poisoned:
        return run.violation('POISON', 'fragment', 'no-error',
                             f"POISON: fragment returned {len(res)} ions for a peptide with unresolvable modification "
                             f"{poisoned}", ev_i)
    if ev.get('late_read') and not poisoned:
        # the client edits its peptide AFTER the call has returned and only then looks at the ions it was given: they
        # describe the peptide that was fragmented (whatever the library computes on first access must not read the
        # caller's annotation as it is now).  The peptide is put back right after the look.
        try:
            run.a.pop_internal_mods()
            run.a.add_nterm_mods([pt.Mod('LateEdit', 1)], append=True)
            run.a.charge = 5
            nres = _no_parent(N.norm(res))
        finally:
            world.restore(run.a, run.a_nf)
        out.faults['late_read'] += 1
    else:
        nres = N.norm(res)
    out.record([ev_i, nres])
    run.results[ev['out']] = res
    opname = 'Fragmenter.fragment' if via != 'direct' else 'fragment'
    if cfg.get('own_lists'):
        for f in ('ion_types', 'charges', 'isotopes'):
            if isinstance(cfg[f], list) and run.own[f] != cfg[f]:
                if run.violation('ARG', opname, 'settings:' + f,
                                 f"ARG: {opname} changed the caller's own {f} list: {cfg[f]} -> {run.own[f]}", ev_i):
                    return True
    # ---- (a) cache coherence / history independence: the same configuration on a fresh private twin
    twin = N.denorm(run.a_nf)
    kw2 = _kwargs(run, dict(cfg, losses_handle=False, own_lists=False))
    st = random.getstate()
    random.seed(4242 + ev_i)
    try:
        ref = pt.fragment(twin, monoisotopic=mono, **kw2)
    finally:
        random.setstate(st)
    out.oracle_checks += 1
    nref = N.norm(ref)
    if ev.get('late_read') and not poisoned:
        nref = _no_parent(nref)
    d = N.same(nres, nref)
    if d is not None:
        import re as _re
        det = _re.sub(r'\[[^\]]*\]', '', str(d).split(':')[0]).strip('.') or 'value'
        if run.violation('COHERENCE', opname, det,
                         f"COHERENCE: {opname} (event {ev_i}, after {sum(1 for e in run.plan['events'][:ev_i] if e['act'] == 'frag')} "
                         f"earlier fragment calls) differs from pt.fragment on a fresh copy with the same configuration "
                         f"{_brief(cfg, mono)}: {d}", ev_i):
            return True
    rt = cfg['return_type']
    seq = run.m.seq
    n = len(seq)
    # ---- (d) the other return types are projections, in order, of the 'fragment' list
    if rt != 'fragment':
        frl = pt.fragment(N.denorm(run.a_nf), monoisotopic=mono, **dict(kw2, return_type='fragment'))
        proj = {'mass': lambda f: f.mass, 'mz': lambda f: f.mz, 'label': lambda f: f.label,
                'mass-label': lambda f: (f.mass, f.label), 'mz-label': lambda f: (f.mz, f.label)}[rt]
        out.oracle_checks += 1
        d = N.same(nres, N.norm([proj(f) for f in frl]))
        out.probes['projection_checked'] += 1
        if d is not None:
            if run.violation('PROJECTION', opname, rt,
                             f"PROJECTION: return_type={rt!r} is not the projection of the 'fragment' list for "
                             f"{run.a.serialize()!r} {_brief(cfg, mono)}: {d}", ev_i):
                return True
        frags = frl
    else:
        frags = res
    # ---- (b) exactly one ion per (type, cleavage position, charge, isotope, applicable loss)
    out.oracle_checks += 1
    got = sorted(((f.ion_type, f.start, f.end, f.charge, f.isotope, _lkey(f.loss)) for f in frags), key=repr)
    exp = expected_keys(seq, cfg)
    if got != exp:
        gs, es = set(got), set(exp)
        missing = sorted(es - gs, key=repr)[:3]
        extra = sorted(gs - es, key=repr)[:3]
        dup = len(got) != len(gs)
        det = 'duplicate' if dup and not missing and not extra else ('missing' if missing else 'extra')
        if run.violation('ENUM', opname, det,
                         f"ENUM: ions for {run.a.serialize()!r} {_brief(cfg, mono)}: {len(got)} returned, {len(exp)} expected; "
                         f"missing {missing} extra {extra} duplicates {dup}", ev_i):
            return True
    # ---- per-ion checks on a scheduler-chosen sample
    idxs = list(range(len(frags)))
    if len(idxs) > 14:
        r = random.Random(ev['sel'])
        idxs = sorted(r.sample(idxs, 14))
    tol = _tol(cfg, mono)
    for i in idxs:
        f = frags[i]
        out.oracle_checks += 1
        # numbering, label, internal flag, unmodified sequence
        num = expected_number(f.ion_type, n, f.start, f.end)
        if f.number != num or f.label != expected_label(f.ion_type, f.charge, num, f.loss, f.isotope):
            if run.violation('LABEL', opname, 'number' if f.number != num else 'label',
                             f"LABEL: ion {f.ion_type} span ({f.start},{f.end}) of a {n}-residue peptide has number "
                             f"{f.number!r} label {f.label!r}, expected number {num!r}", ev_i):
                return True
        if f.unmod_sequence != seq[f.start:f.end] or f.internal != (f.start != 0 and f.end != n) \
                or f.monoisotopic != mono:
            if run.violation('ENUM', opname, 'fields',
                             f"ENUM: ion {f.label}: unmod_sequence {f.unmod_sequence!r} / internal {f.internal} / "
                             f"monoisotopic {f.monoisotopic} do not describe span ({f.start},{f.end}) of {seq!r}", ev_i):
                return True
        # carried modifications: the ion's sequence is the model's slice
        try:
            fa = pt.parse(f.sequence)
        except Exception as e:
            if run.violation('CARRY', opname, 'unparseable', f"CARRY: ion sequence {f.sequence!r} does not parse: {e!r}", ev_i):
                return True
            continue
        expm = run.m.slice(f.start, f.end)
        cur = ModelPeptide.from_nf(N.norm_ann(fa))
        a_, b_ = cur.canon(), expm.canon()
        bad = next((k for k in a_ if k not in ('labile', 'unknown', 'charge', 'adducts') and a_[k] != b_[k]), None)
        if bad:
            if run.violation('CARRY', opname, bad,
                             f"CARRY: ion {f.label} {f.sequence!r} of {run.a.serialize()!r}: field {bad}: {a_[bad]!r} != "
                             f"{b_[bad]!r}", ev_i):
                return True
        # ---- (c) mass and m/z agree with the mass calculator on the ion's own sequence
        try:
            em = pt.mass(f.sequence, charge=f.charge, ion_type=f.ion_type, monoisotopic=mono, isotope=f.isotope,
                         loss=f.loss, precision=cfg['precision'])
            ez = pt.mz(f.sequence, charge=f.charge, ion_type=f.ion_type, monoisotopic=mono, isotope=f.isotope,
                       loss=f.loss, precision=cfg['precision'])
            en = pt.mass(f.sequence, charge=0, ion_type=f.ion_type, monoisotopic=mono, isotope=f.isotope, loss=f.loss)
        except Exception as e:
            if run.violation('MASS', opname, 'calculator-raises',
                             f"MASS: pt.mass raised {e!r} for ion {f.sequence!r} which the fragmenter produced", ev_i):
                return True
            continue
        out.probes['ion_mass_checked'] += 1
        # m/z may be computed from the already rounded mass: allow one unit of the requested precision there
        tol_mz = tol if cfg['precision'] is None else 10 ** (-cfg['precision']) + 1e-6
        for what, gotv, expv, t in (('mass', f.mass, em, tol), ('mz', f.mz, ez, tol_mz), ('neutral_mass', f.neutral_mass, en, 1e-6)):
            # ... plus a few units in the last place of the numbers themselves (the same terms added in another order;
            # only visible for magnitudes a double can barely hold)
            if abs(gotv - expv) > t + 8 * math.ulp(max(abs(gotv), abs(expv))):
                lab = 'labelled' if run.m.isotope else ('static' if run.m.static else 'plain')
                if run.violation('MASS', opname, f"{what}-{lab}",
                                 f"MASS: ion {f.label} {f.sequence!r} ({'mono' if mono else 'avg'}, precision "
                                 f"{cfg['precision']}): fragmenter {what} {gotv!r} != mass calculator {expv!r} "
                                 f"(diff {gotv - expv:.6f})", ev_i):
                    return True
                break
    return False


def _brief(cfg, mono):
    return (f"[types={cfg['ion_types']} charges={cfg['charges']} isotopes={cfg['isotopes']} water={cfg['water_loss']} "
            f"ammonia={cfg['ammonia_loss']} losses={cfg['losses']} max_losses={cfg['max_losses']} rt={cfg['return_type']} "
            f"precision={cfg['precision']} mono={mono}]")


def _do_query(run, ev_i, ev):
    """another client's queries on the same annotation (results are not judged here - C08 does that; what matters is
    that they happen between the Fragmenter's calls)"""
    pt = Env.pt
    a = run.a
    op = ev['op']
    run.out.faults['interleave'] += 1
    try:
        if op == 'mass':
            pt.mass(a)
        elif op == 'mz':
            pt.mz(a, charge=2)
        elif op == 'comp_mass':
            pt.comp_mass(a)
        elif op == 'split':
            g = a.split()
            next(g, None)
            if ev['sel'] % 2:
                g.close()
            else:
                list(g)
        elif op == 'count_residues':
            pt.count_residues(a)
        elif op == 'serialize':
            a.serialize()
        elif op == 'digest':
            g = pt.digest(a, 'trypsin', 1, return_type='annotation')
            next(g, None)
        elif op == 'condense_to_mass_mods':
            pt.condense_to_mass_mods(a)
        elif op == 'permutations':
            if len(a) <= 5:
                a.permutations(2)
        elif op == 'copy':
            a.copy()
        elif op == 'slice':
            a.slice(0, max(1, len(a) // 2))
        elif op == 'is_subsequence':
            pt.is_subsequence(a, a)
    except Exception as e:
        run.out.record([ev_i, N.norm_exc(e)])
    return False


def _do_todict(run, ev_i, ev):
    pt = Env.pt
    r = run.results.get(ev['res'])
    if not r or not isinstance(r, list) or not isinstance(r[0], pt.Fragment):
        return False
    f = r[ev['i'] % len(r)]
    before = N.norm(f.to_dict())
    if ev['touch'] in ('label', 'both'):
        f.label
    if ev['touch'] in ('number', 'both'):
        f.number
    after = N.norm(f.to_dict())
    run.out.oracle_checks += 1
    run.out.probes['to_dict_checked'] += 1
    d = N.same(before, after)
    if d is not None:
        return run.violation('TODICT', 'Fragment.to_dict', 'value', f"TODICT: Fragment.to_dict() changed after its cached "
                                                                    f"properties were read: {d}", ev_i)
    keys = set(k for k, _ in after[1])
    need = {'charge', 'ion_type', 'start', 'end', 'mass', 'mz', 'sequence', 'label', 'number'}
    if not need <= keys:
        return run.violation('TODICT', 'Fragment.to_dict', 'keys', f"TODICT: to_dict lacks {sorted(need - keys)}", ev_i)
    return False


# ------------------------------------------------------------------------------------------ shrinking

def shrink_candidates(plan):
    from sim.props.c08 import _spec_shrinks
    for h0 in [k for k, v in plan['pool'].items() if v['kind'] == 'ann']:
        for cand in _spec_shrinks(plan['pool'][h0]['spec']):
            if len(cand['seq']) != len(plan['pool'][h0]['spec']['seq']) and 'A1' in plan['pool']:
                continue     # siblings keep the same residues
            p2 = copy.deepcopy(plan)
            p2['pool'][h0]['spec'] = cand
            yield p2
    if 'A1' in plan['pool']:
        p2 = copy.deepcopy(plan)
        del p2['pool']['A1']
        yield p2
    for i, ev in enumerate(plan['events']):
        if ev['act'] != 'frag':
            continue
        c = ev['cfg']
        simpler = []
        if isinstance(c['ion_types'], list) and len(c['ion_types']) > 1:
            simpler += [dict(c, ion_types=[t]) for t in c['ion_types']]
        if isinstance(c['charges'], list):
            simpler.append(dict(c, charges=c['charges'][0]))
        elif c['charges'] != 1:
            simpler.append(dict(c, charges=1))
        if c['isotopes'] != 0:
            simpler.append(dict(c, isotopes=0))
        for k in ('water_loss', 'ammonia_loss'):
            if c[k]:
                simpler.append(dict(c, **{k: False}))
        if c['losses']:
            simpler.append(dict(c, losses=None, losses_handle=False, losses_single_tuple=False))
        if c['max_losses'] != 1:
            simpler.append(dict(c, max_losses=1))
        if c['precision'] is not None:
            simpler.append(dict(c, precision=None))
        for sc in simpler:
            p2 = copy.deepcopy(plan)
            p2['events'][i]['cfg'] = sc
            yield p2


RULE = ("seeded random history of 3-10 fragment calls (ion types: non-empty subsets of the 16; charges within [1,4]; "
        "isotopes within [0,3]; water / ammonia / custom regex losses, max_losses 1-3, one losses list object re-used; "
        "precision None or 0-6; all six return types; monoisotopic or average) through 0-2 cached Fragmenter objects "
        "(built from the shared annotation or its string) and directly, on one generated peptide of length 1-12 with "
        "residue, terminal, static and isotope-label modifications, interleaved with a second client's queries on the "
        "same annotation, scribbles on results and touches of cached Fragment properties. Distinct = distinct sequence "
        "of (event kind, via); non-trivial = at least two fragment calls and more than three oracle comparisons.")
EXPECTED_PROBES = ['fragmenters_on_sibling_peptides', 'fragmenter_calls', 'projection_checked', 'ion_mass_checked', 'to_dict_checked']
ASSUMPTIONS = [
    "per response at most 14 ions (scheduler-chosen) get the per-ion checks (numbering, carried modifications, mass "
    "calculator); enumeration, coherence and projection are checked on every ion",
    "mass tolerance 1e-6 Da, or half a unit of the requested precision",
    "peptides carry no labile / unknown-position / interval / charge annotations (the property's quantifier)",
    "editing the annotation after a Fragmenter was built from it is outside the statement (the cache is not "
    "invalidated by design)",
    "the search samples histories; a clean batch is evidence, not proof",
]
STUB_NOTE = ""
STATE_MEASURE = 'the configuration of a fragment call (ion types, charges, isotopes, loss flags, number of custom losses, max_losses, return type, precision), who made it (pt.fragment or a Fragmenter) and how many Fragmenter objects are alive'
FAMILY_STARTS = [0]
