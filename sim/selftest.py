"""
selftest.py - the simulator checks itself.

  import        peptacular imports from /repo/src, the harness can build / dump / rebuild objects.
  determinism   same run index twice in one process, in chunks of different size, at 1 and 16 workers, and in fresh
                interpreters under other PYTHONHASHSEED values: result digests must agree pairwise.
  sensitivity   every patch under /verif/seeded/*/patch.diff is applied to a scratch copy of /repo (outside /repo
                and /verif), the quick tier of the property it breaks must report a violation, the copy is removed.
"""
import json
import os
import shutil
import subprocess
import sys
import tempfile
import time

from sim import boot, kernel, registry

HERE = os.path.dirname(os.path.abspath(__file__))
RUN = os.path.join(HERE, 'run.py')
ALL = ['C04', 'C07', 'C08', 'C11', 'C20']


def main(what, ids):
    if what == 'digests':     # internal: print {index: digest} for a range, used by the determinism test
        return st_digests(ids)
    if what == 'digests_of':  # internal: digests of the run indices in $VERIF_IDX (used by the hashseed sample)
        idxs = json.loads(os.environ['VERIF_IDX'])
        base = int(os.environ.get('VERIF_BASE', '0'))
        tot = kernel.run_batch(ids[0], [(base, i) for i in idxs], os.environ.get('VERIF_TIERX', 'quick'), chunk=40,
                               opts={'digests': True, 'stop_on_violation': False})
        print('DIGESTS ' + json.dumps({str(k): v for k, v in tot['digests'].items()}))
        return 0
    ids = [i for i in (ids or ALL) if _has(i)]
    if what == 'import':
        return st_import()
    if what == 'determinism':
        return st_determinism(ids)
    if what == 'sensitivity':
        return st_sensitivity(ids)
    print('unknown selftest', what)
    return 2


def _has(pid):
    return os.path.exists(os.path.join(HERE, 'props', pid.lower() + '.py'))


def st_import():
    pt = boot.import_library()
    from sim import norm as N, spec as SP, world
    N.bind(pt)
    world.bind(pt)
    S = kernel.Sched(1)
    n = 0
    for _ in range(200):
        cfg = SP.swarm_cfg(S)
        sp = SP.gen_pep(S, cfg)
        a = world.build_ann({'kind': 'ann', 'via': 'parse', 'spec': sp})
        b = N.denorm(N.norm(a))
        assert N.same(N.norm(a), N.norm(b)) is None
        n += 1
    print(f"selftest import: peptacular {pt.__version__} from {os.path.dirname(pt.__file__)}; {n} specs built, "
          f"dumped and rebuilt; properties available: {[i for i in ALL if _has(i)]}")
    return 0


def _digests_inproc(pid, idxs, chunk, workers):
    tot = kernel.run_batch(pid, [(0, i) for i in idxs], 'quick', workers=workers, chunk=chunk,
                           opts={'digests': True, 'stop_on_violation': False})
    if tot['harness_errors']:
        raise RuntimeError(tot['harness_errors'][0])
    return tot['digests']


def st_digests(args):
    pid, lo, hi = args[0], int(args[1]), int(args[2])
    d = _digests_inproc(pid, range(lo, hi), 50, 8)
    print('DIGESTS ' + json.dumps({str(k): v for k, v in d.items()}))
    return 0


def _digests_fresh(pid, lo, hi, hashseed):
    env = dict(os.environ, PYTHONHASHSEED=str(hashseed), VERIF_HASHSEED=str(hashseed))
    r = subprocess.run([sys.executable, RUN, 'selftest', 'digests', pid, str(lo), str(hi)], capture_output=True,
                       text=True, env=env, timeout=3000)
    for ln in r.stdout.splitlines():
        if ln.startswith('DIGESTS '):
            return {int(k): v for k, v in json.loads(ln[8:]).items()}
    raise RuntimeError(f"fresh interpreter failed: {r.stdout[-800:]} {r.stderr[-800:]}")


def st_determinism(ids, n=None):
    n = n or int(os.environ.get('VERIF_DET_N', 2000))
    rc = 0
    for pid in ids:
        mod = registry.load(pid)
        t0 = time.time()
        # sample run indices from every family: the systematic ranges and the random histories
        fams = getattr(mod, 'FAMILY_STARTS', [0])
        idxs = []
        per = max(1, n // len(fams))
        for st in fams:
            idxs.extend(range(st, st + per))
        a = _digests_inproc(pid, idxs, 50, 16)
        b = _digests_inproc(pid, idxs, 7, 16)      # other chunking: "index alone" == "index in a batch"
        c = _digests_inproc(pid, idxs, 200, 1)     # one worker
        bad = [i for i in idxs if not (a.get(i) == b.get(i) == c.get(i)) or a.get(i) is None]
        msg = f"[{pid}] {len(idxs)} indices x (16 workers chunk 50 | 16 workers chunk 7 | 1 worker chunk 200): " \
              f"{len(bad)} digest mismatches"
        hs_bad = {}
        for hs in (1, 12345):
            lo = fams[-1]
            d = _digests_fresh(pid, lo, lo + per, hs)
            hs_bad[hs] = [i for i in range(lo, lo + per) if d.get(i) != a.get(i)]
            lo0 = fams[0]
            d0 = _digests_fresh(pid, lo0, lo0 + min(per, 300), hs)
            hs_bad[hs] += [i for i in range(lo0, lo0 + min(per, 300)) if d0.get(i) != a.get(i)]
        print(msg + f"; fresh interpreter PYTHONHASHSEED=1: {len(hs_bad[1])} mismatches, =12345: "
                    f"{len(hs_bad[12345])} mismatches; {time.time() - t0:.0f}s", flush=True)
        if bad:
            print("HARNESS-NONDETERMINISM", pid, 'indices', bad[:10])
            rc = 2
        for hs, bl in hs_bad.items():
            if bl:
                # reported separately: either the harness or hash-order leaking into library results
                print(f"HASHSEED-DEPENDENCE {pid} PYTHONHASHSEED={hs} indices {bl[:10]}")
                rc = 2
    return rc


def st_sensitivity(ids):
    seeded = os.path.join(boot.VERIF, 'seeded')
    rc = 0
    rows = []
    for name in sorted(os.listdir(seeded)) if os.path.isdir(seeded) else []:
        d = os.path.join(seeded, name)
        meta_p = os.path.join(d, 'meta.json')
        patch = os.path.join(d, 'patch.diff')
        if not (os.path.exists(meta_p) and os.path.exists(patch)):
            continue
        meta = json.load(open(meta_p))
        only = os.environ.get('VERIF_SENS_ONLY')
        if only and not any(tok in name for tok in only.split(',')):
            continue
        pids = [p for p in meta.get('detected_by', [meta['property']]) if p in ids]
        if not pids:
            continue
        scratch = tempfile.mkdtemp(prefix='pepsim-sens-', dir=os.environ.get('VERIF_SCRATCH', '/tmp'))
        try:
            subprocess.run(['git', '-C', boot.REPO, 'worktree', 'add', '--detach', '-f', os.path.join(scratch, 'wt'),
                            'HEAD'], capture_output=True, text=True, check=True)
            wt = os.path.join(scratch, 'wt')
            ap = subprocess.run(['git', '-C', wt, 'apply', patch], capture_output=True, text=True)
            if ap.returncode != 0:
                rows.append((name, 'PATCH-DOES-NOT-APPLY', ap.stderr.strip()[:200]))
                rc = 2
                continue
            for pid in pids:
                env = dict(os.environ, VERIF_REPO=wt, VERIF_MIN_S='20', VERIF_OUT=scratch)
                t0 = time.time()
                r = subprocess.run([sys.executable, RUN, 'check', pid, '--tier', 'quick'], capture_output=True,
                                   text=True, env=env, timeout=3000, cwd=scratch)
                hit = [ln for ln in r.stdout.splitlines() if ln.startswith('VIOLATION')]
                cls = [ln for ln in r.stdout.splitlines() if 'violation class' in ln]
                ok = r.returncode == 1 and hit
                if ok and os.environ.get('VERIF_SAVE_CORPUS'):
                    # keep the minimised histories that told this change from the correct library
                    cd = os.path.join(boot.VERIF, 'corpus', pid)
                    os.makedirs(cd, exist_ok=True)
                    for n_, ln in enumerate(hit[:2]):
                        src = ln.split('replay=', 1)[1].strip()
                        if os.path.exists(src):
                            shutil.copy(src, os.path.join(cd, f"{name}-{n_}.json"))
                rows.append((name, pid, 'DETECTED' if ok else f'MISSED (exit {r.returncode})',
                             f"{time.time() - t0:.0f}s", cls[0][:160] if cls else ''))
                if not ok:
                    rc = 1
        finally:
            subprocess.run(['git', '-C', boot.REPO, 'worktree', 'remove', '--force', os.path.join(scratch, 'wt')],
                           capture_output=True)
            shutil.rmtree(scratch, ignore_errors=True)
            subprocess.run(['git', '-C', boot.REPO, 'worktree', 'prune'], capture_output=True)
    for row in rows:
        print('SENSITIVITY', *row, flush=True)
    print(f"sensitivity: {sum(1 for r in rows if 'DETECTED' in r[2:3])} detected of {len(rows)}")
    return rc
