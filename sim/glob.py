"""
glob.py - fingerprints of the process-wide state a library call could disturb or depend on:
the caller's global `random` generator, the six modification vocabularies, the module-level constant tables,
and `warnings.filters`.  Cheap fingerprints are taken around every event; full content hashes at run boundaries.
"""
import hashlib
import random
import types
import warnings

_pt = None
_DBS = ('UNIMOD_DB', 'PSI_MOD_DB', 'XLMOD_DB', 'MONOSACCHARIDES_DB', 'GNO_DB', 'RESID_DB')
_CONST_MODULES = ()
_consts = []  # (qualified name, object)


def bind(pt):
    global _pt, _consts
    _pt = pt
    import peptacular.constants as c1
    import peptacular.chem.chem_constants as c2
    _consts = []
    seen = set()
    # every PUBLIC module-level table: the two constants modules and whatever else the package namespace exports
    # (a client can read all of these; private memo tables are not observable state and are deliberately left out)
    for mod in (c1, c2, pt):
        for name in sorted(vars(mod)):
            if name.startswith('_'):
                continue
            v = getattr(mod, name)
            if isinstance(v, (dict, list, set)) and not isinstance(v, types.ModuleType) and id(v) not in seen:
                seen.add(id(v))
                _consts.append((f"{mod.__name__}.{name}", v))


def dbs():
    return [(n, getattr(_pt, n)) for n in _DBS]


def db_cheap():
    out = []
    for n, db in dbs():
        ns = db.names_sorted
        out.append((n, len(db.id_map), len(db.name_map), len(db.synonym_map), len(db.mono_mass_map),
                    len(db.avg_mass_map), bool(db.use_synonyms), len(ns), id(db.id_map),
                    id(db.name_map),
                    # the ORDER of the name index matters (longest name first is what the glycan tokenizer relies
                    # on); ties inside one length are hash-seed dependent, so only the lengths are fingerprinted
                    tuple(len(x) for x in ns[:64]), id(ns)))
    return tuple(out)


def db_full(names=None):
    out = {}
    for n, db in dbs():
        if names is not None and n not in names:
            continue
        h = hashlib.sha1()
        for k in sorted(db.id_map):
            e = db.id_map[k]
            h.update(repr((k, e.id, e.name, e.mono_mass, e.avg_mass, e.composition,
                           tuple(e.synonyms or ()))).encode())
        h.update(repr(sorted(db.name_map)).encode())
        h.update(repr(sorted(db.synonym_map)).encode())
        h.update(repr(sorted(db.names_sorted)).encode())  # tie order inside is hash-seed dependent: sort
        h.update(repr([len(x) for x in db.names_sorted]).encode())   # ... but the order of the lengths is content
        h.update(repr((len(db.mono_mass_map), len(db.avg_mass_map), bool(db.use_synonyms))).encode())
        out[n] = h.hexdigest()[:16]
    return out


def const_cheap():
    return tuple((n, len(v)) for n, v in _consts)


def _content(v, depth=0):
    if isinstance(v, dict):
        return sorted((repr(k), _content(x, depth + 1)) for k, x in v.items())
    if isinstance(v, (set, frozenset)):
        return sorted(repr(x) for x in v)
    if isinstance(v, (list, tuple)):
        return [_content(x, depth + 1) for x in v]
    return repr(v)


def const_full():
    h = {}
    for n, v in _consts:
        h[n] = hashlib.sha1(repr(_content(v)).encode()).hexdigest()[:12]
    return h


def warn_fp():
    return repr([(f[0], str(f[1]), f[2].__name__, str(f[3]), f[4]) for f in warnings.filters])


def interp_fp():
    """interpreter-wide settings a library call has no business changing (a query that raises the recursion limit,
    switches the decimal context or the locale, installs a trace function, ... disturbs every other user of the process)"""
    import decimal
    import gc
    import locale
    import logging
    import os
    import sys
    ctx = decimal.getcontext()
    return (('sys.recursionlimit', sys.getrecursionlimit()),
            ('sys.switchinterval', sys.getswitchinterval()),
            ('sys.settrace/setprofile', sys.gettrace() is None, sys.getprofile() is None),
            ('gc', gc.isenabled(), gc.get_threshold()),
            ('decimal.context', ctx.prec, ctx.rounding, ctx.Emax, ctx.Emin),
            ('locale', locale.setlocale(locale.LC_ALL)),
            ('os.getcwd', os.getcwd()),
            ('os.environ', len(os.environ)),
            ('sys.path', len(sys.path)),
            ('logging.root', logging.root.level, len(logging.root.handlers), logging.root.disabled),
            ('sys.int_max_str_digits', sys.get_int_max_str_digits()),
            ('sys.excepthook', sys.excepthook is sys.__excepthook__, sys.displayhook is sys.__displayhook__),
            ('sys.stdout/stderr', sys.stdout is sys.__stdout__, sys.stderr is sys.__stderr__))


class Globals:
    """Snapshot / compare helper."""

    def __init__(self):
        self.full_db0 = db_full()
        self.full_const0 = const_full()
        self.warn0 = warn_fp()

    def cheap(self):
        return (random.getstate(), db_cheap(), const_cheap(), warn_fp(), interp_fp())

    @staticmethod
    def diff_cheap(a, b):
        """Name of the first process-wide item that differs, or None."""
        if a[0] != b[0]:
            return 'random'
        if a[1] != b[1]:
            for x, y in zip(a[1], b[1]):
                if x != y:
                    return x[0]
            return 'databases'
        if a[2] != b[2]:
            for x, y in zip(a[2], b[2]):
                if x != y:
                    return x[0]
            return 'constants'
        if a[3] != b[3]:
            return 'warnings.filters'
        if len(a) > 4 and a[4] != b[4]:
            for x, y in zip(a[4], b[4]):
                if x != y:
                    return x[0]
            return 'interpreter'
        return None

    def diff_full(self):
        d = db_full()
        for k in d:
            if d[k] != self.full_db0[k]:
                return k
        c = const_full()
        for k in c:
            if c[k] != self.full_const0.get(k):
                return k
        if warn_fp() != self.warn0:
            return 'warnings.filters'
        return None

    def rebase_db(self):
        self.full_db0 = db_full()
