"""survey.py - development aid: run a batch with VERIF_SURVEY=1 and list every violation class seen (nothing stops)."""
import os, sys, collections
sys.path.insert(0, os.path.dirname(os.path.dirname(os.path.abspath(__file__))))
os.environ['VERIF_SURVEY'] = '1'
from sim import boot
boot.ensure_hashseed()
from sim import kernel, registry
pid, lo, hi = sys.argv[1], int(sys.argv[2]), int(sys.argv[3])
tier = sys.argv[4] if len(sys.argv) > 4 else 'quick'
mod = registry.load(pid)
tot = kernel.run_batch(pid, [(0, i) for i in range(lo, hi)], tier, chunk=50, opts={'child_timeout': 900})
print('runs', tot['runs'], 'events', tot['events'], 'wall', round(tot['wall_s'], 1), 'errors', len(tot['harness_errors']))
for e in tot['harness_errors'][:5]:
    print('HARNESS', e[-1500:])
cls = collections.defaultdict(lambda: [0, None])
for k, n in tot['known'].items():
    c, _, msg = k.partition(' :: ')
    cls[c][0] += n
    cls[c][1] = cls[c][1] or msg
for c in sorted(cls):
    print(f"{cls[c][0]:6d} {c}\n         {cls[c][1]}")
print('faults', dict(tot['faults']), 'probes', dict(tot['probes']))
