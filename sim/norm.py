"""
norm.py - side-effect-free dumps of library values into a tagged, JSON-able normal form; structural comparison
with a float tolerance; and rebuilding of fresh private twins from a dump.

Only public accessors of the library are used.  The dump never touches cached properties (that would change
the state it is meant to observe) and never calls the library's own ==, copy() or dict().

Conventions (DESIGN.md section 5): inside an annotation an empty modification list and `None` are the same thing;
dictionaries are compared without regard to key order; everything else is exact, floats up to
abs <= 1e-9 or rel <= 1e-12 (same code on equal data; the slack only forgives summation order).
"""
import collections
import math
import re
import types

_pt = None


def bind(pt):
    global _pt
    _pt = pt


ABS_TOL = 1e-9
REL_TOL = 1e-12


def _mods(ms):
    if ms is None:
        return None
    if not isinstance(ms, (list, tuple)):
        return ['raw', norm(ms)]     # a client scribbled a non-list here; still dump it faithfully
    out = []
    for m in ms:
        out.append(_mod(m))
    return out


def _mod(m):
    if isinstance(m, _pt.Mod):
        return ['mod', m.val, m.mult]
    # a raw value inside a mod list (the library accepts and sometimes stores them)
    return ['raw', norm(m)]


def _interval(iv):
    return ['interval', iv.start, iv.end, iv.ambiguous, _mods(iv.mods)]


def norm_ann(a):
    internal = None
    im = a.internal_mods
    if im is not None and not im and isinstance(im, dict):
        internal = []        # an empty dict: kept in the dump, equal to None in comparisons
    if im:
        internal = []
        if not isinstance(im, dict):
            return ['ann-broken', norm(im)]
        for k, v in im.items():
            nv = _mods(v)
            internal.append([k, nv])
    ivs = None
    if a.intervals is not None and isinstance(a.intervals, list):
        ivs = [_interval(iv) if isinstance(iv, _pt.Interval) else ['raw', norm(iv)] for iv in a.intervals]
    return ['ann', {
        'seq': a.sequence,
        'isotope': _mods(a.isotope_mods),
        'static': _mods(a.static_mods),
        'labile': _mods(a.labile_mods),
        'unknown': _mods(a.unknown_mods),
        'nterm': _mods(a.nterm_mods),
        'cterm': _mods(a.cterm_mods),
        'internal': internal,
        'intervals': ivs,
        'charge': a.charge,
        'adducts': _mods(a.charge_adducts),
    }]


FRAG_FIELDS = ('charge', 'ion_type', 'start', 'end', 'monoisotopic', 'isotope', 'loss', 'parent_sequence', 'mass',
               'neutral_mass', 'mz', 'sequence', 'unmod_sequence', 'internal')


def norm(x, depth=0):
    """Dump any value the catalogue can return or accept."""
    if depth > 40:
        return ['deep']
    if x is None or isinstance(x, (bool, int, str)):
        return x
    if isinstance(x, float):
        return x
    pt = _pt
    if isinstance(x, pt.ProFormaAnnotation):
        return norm_ann(x)
    if isinstance(x, pt.Mod):
        return ['mod', x.val, x.mult]
    if isinstance(x, pt.Interval):
        return _interval(x)
    if isinstance(x, pt.Fragment):
        d = {f: norm(getattr(x, f), depth + 1) for f in FRAG_FIELDS}
        # Fragment.__iter__ / to_dict() enumerate the instance __dict__, so anything a call leaves there beyond the
        # declared fields and the two documented cached properties is observable state of the fragment
        extra = sorted(k for k in vars(x) if k not in FRAG_FIELDS and k not in ('label', 'number'))
        if extra:
            d['__dict__extras'] = extra
        return ['frag', d]
    if isinstance(x, pt.FragmentMatch):
        return ['fmatch', norm(x.fragment, depth + 1), x.mz, x.intensity]
    if isinstance(x, pt.MultiProFormaAnnotation):
        return ['multi', [norm(a, depth + 1) for a in x.annotations], list(x.connections)]
    if isinstance(x, pt.EnzymeConfig):
        return ['enzcfg', norm(x.regex, depth + 1), x.missed_cleavages, x.semi_enzymatic, x.complete_digestion]
    if isinstance(x, collections.Counter):
        return ['dict', [[norm(k, depth + 1), norm(v, depth + 1)] for k, v in x.items()]]
    if isinstance(x, dict):
        return ['dict', [[norm(k, depth + 1), norm(v, depth + 1)] for k, v in x.items()]]
    if isinstance(x, list):
        return ['list', [norm(v, depth + 1) for v in x]]
    if isinstance(x, tuple):
        return ['tuple', [norm(v, depth + 1) for v in x]]
    if isinstance(x, (set, frozenset)):
        return ['set', sorted((norm(v, depth + 1) for v in x), key=_sortkey)]
    if isinstance(x, types.GeneratorType) or hasattr(x, '__next__'):
        return ['lazy']
    if isinstance(x, BaseException):
        return norm_exc(x)
    return ['obj', type(x).__name__, _mask(repr(x))]


_ADDR = re.compile(r'0x[0-9a-fA-F]+')


def _mask(s):
    return _ADDR.sub('0x?', s)


def norm_exc(e):
    return ['exc', type(e).__name__, _mask(str(e))[:300]]


def _sortkey(v):
    return repr(v)


def _is_num(v):
    return isinstance(v, (int, float)) and not isinstance(v, bool)


STRICT_EMPTY = [False]


def same_strict(a, b, path=''):
    """like same(), but inside an annotation an empty container and None are DIFFERENT (has_*_mods() tells them
    apart): used where the question is 'was this very object changed', not 'do these denote the same peptide'"""
    STRICT_EMPTY[0] = True
    try:
        return same(a, b, path)
    finally:
        STRICT_EMPTY[0] = False


def same(a, b, path='', exc_text=False):
    """Return None if a and b are the same dump, else a short description of the first difference found."""
    if _is_num(a) and _is_num(b):
        if type(a) is not type(b):
            # 1 vs 1.0 are different values for the library (they serialise differently)
            return f"{path}: {a!r} ({type(a).__name__}) != {b!r} ({type(b).__name__})"
        if isinstance(a, float):
            if a == b or (math.isnan(a) and math.isnan(b)):
                return None
            if abs(a - b) <= ABS_TOL or abs(a - b) <= REL_TOL * max(abs(a), abs(b)):
                return None
            return f"{path}: {a!r} != {b!r}"
        return None if a == b else f"{path}: {a!r} != {b!r}"
    if type(a) is not type(b):
        return f"{path}: {_short(a)} != {_short(b)}"
    if isinstance(a, list):
        if a and isinstance(a[0], str) and a[0] in _TAGS and b and a[0] == b[0]:
            tag = a[0]
            if tag == 'dict':
                return _same_dict(a[1], b[1], path, exc_text)
            if tag == 'ann' or tag == 'frag':
                for k in a[1]:
                    x, y = a[1][k], b[1].get(k)
                    if tag == 'ann' and not STRICT_EMPTY[0]:
                        x, y = _empty_to_none(x, k), _empty_to_none(y, k)
                    if tag == 'frag' and k == '__dict__extras':
                        continue
                    if tag == 'ann' and k in ('internal', 'intervals') and isinstance(x, list) and isinstance(y, list):
                        # the order of the residue-mod dict and of the interval list is not observable state
                        # (the dump itself keeps it, so that a rebuilt twin has the same order)
                        x, y = sorted(x, key=_ordkey), sorted(y, key=_ordkey)
                    d = same(x, y, f"{path}.{k}", exc_text)
                    if d:
                        return d
                if tag == 'frag' and a[1].get('__dict__extras') != b[1].get('__dict__extras'):
                    return (f"{path}.__dict__: extra entries {a[1].get('__dict__extras')} != "
                            f"{b[1].get('__dict__extras')} (they show up in to_dict() / dict(fragment))")
                if tag == 'ann' and STRICT_EMPTY[0]:
                    for k in b[1]:
                        if k not in a[1]:
                            return f"{path}.{k}: only on the right"
                return None
            if tag == 'exc':
                if a[1] != b[1]:
                    return f"{path}: raises {a[1]} != raises {b[1]}"
                if exc_text and a[2] != b[2]:
                    return f"{path}: message {a[2]!r} != {b[2]!r}"
                return None
        if len(a) != len(b):
            return f"{path}: length {len(a)} != {len(b)} ({_short(a)} vs {_short(b)})"
        for i, (x, y) in enumerate(zip(a, b)):
            d = same(x, y, f"{path}[{i}]", exc_text)
            if d:
                return d
        return None
    if isinstance(a, dict):
        for k in a:
            d = same(a[k], b.get(k), f"{path}.{k}", exc_text)
            if d:
                return d
        return None
    return None if a == b else f"{path}: {_short(a)} != {_short(b)}"


_TAGS = {'ann', 'mod', 'raw', 'interval', 'frag', 'fmatch', 'multi', 'enzcfg', 'dict', 'list', 'tuple', 'set',
         'lazy', 'exc', 'obj', 'deep'}


def _empty_to_none(v, field):
    """inside an annotation an empty container and None are the same observable state (DESIGN.md section 5)"""
    if isinstance(v, list):
        if field == 'internal':
            v = [kv for kv in v if not (isinstance(kv, list) and len(kv) == 2 and kv[1] == [])]
        elif field == 'intervals':
            v = [(iv[:4] + [None] if isinstance(iv, list) and iv and iv[0] == 'interval' and iv[4] == [] else iv)
                 for iv in v]
        if not v:
            return None
    return v


def _ordkey(v):
    # [index, mods] pairs and ['interval', start, end, ...] dumps
    if isinstance(v, list) and v and v[0] == 'interval':
        return (0, repr(v[1]), repr(v[2]), repr(v[3:]))
    if isinstance(v, list) and v and isinstance(v[0], int) and not isinstance(v[0], bool):
        return (1, v[0], '', '')
    return (2, repr(v), '', '')


def _same_dict(ia, ib, path, exc_text):
    da = {repr(k): (k, v) for k, v in ia}
    db = {repr(k): (k, v) for k, v in ib}
    if len(da) != len(ia) or len(db) != len(ib):
        # duplicate keys cannot happen in a real dict; fall back to ordered comparison
        return same(['list', ia], ['list', ib], path, exc_text)
    for rk in da:
        if rk not in db:
            return f"{path}: key {da[rk][0]!r} only on the left"
    for rk in db:
        if rk not in da:
            return f"{path}: key {db[rk][0]!r} only on the right"
    for rk in da:
        d = same(da[rk][1], db[rk][1], f"{path}[{da[rk][0]!r}]", exc_text)
        if d:
            return d
    return None


def _short(v, n=160):
    s = repr(v)
    return s if len(s) <= n else s[:n] + '...'


def is_exc(nf):
    return isinstance(nf, list) and len(nf) == 3 and nf[0] == 'exc'


# ------------------------------------------------------------------ rebuilding fresh twins

def _mk_mods(ms):
    if ms is None:
        return None
    out = []
    for m in ms:
        if m[0] == 'mod':
            out.append(_pt.Mod(m[1], m[2]))
        else:
            out.append(denorm(m[1]))
    return out


def _mk_interval(iv):
    return _pt.Interval(iv[1], iv[2], iv[3], _mk_mods(iv[4]))


def denorm(nf):
    """Build a fresh, private object from a dump (no node shared with anything else)."""
    if nf is None or isinstance(nf, (bool, int, float, str)):
        return nf
    pt = _pt
    tag = nf[0]
    if tag == 'ann':
        f = nf[1]
        internal = None
        if f['internal'] is not None:
            internal = {k: _mk_mods(v) for k, v in f['internal']}
        ivs = None
        if f['intervals'] is not None:
            ivs = [_mk_interval(iv) if iv[0] == 'interval' else denorm(iv[1]) for iv in f['intervals']]
        return pt.create_annotation(f['seq'],
                                    isotope_mods=_mk_mods(f['isotope']),
                                    static_mods=_mk_mods(f['static']),
                                    labile_mods=_mk_mods(f['labile']),
                                    unknown_mods=_mk_mods(f['unknown']),
                                    nterm_mods=_mk_mods(f['nterm']),
                                    cterm_mods=_mk_mods(f['cterm']),
                                    internal_mods=internal,
                                    intervals=ivs,
                                    charge=f['charge'],
                                    charge_adducts=_mk_mods(f['adducts']))
    if tag == 'mod':
        return pt.Mod(nf[1], nf[2])
    if tag == 'raw':
        return denorm(nf[1])
    if tag == 'interval':
        return _mk_interval(nf)
    if tag == 'frag':
        return pt.Fragment(**{k: denorm(v) for k, v in nf[1].items() if k != '__dict__extras'})
    if tag == 'fmatch':
        return pt.FragmentMatch(denorm(nf[1]), nf[2], nf[3])
    if tag == 'enzcfg':
        return pt.EnzymeConfig(regex=denorm(nf[1]), missed_cleavages=nf[2], semi_enzymatic=nf[3],
                               complete_digestion=nf[4])
    if tag == 'dict':
        return {_hashable(denorm(k)): denorm(v) for k, v in nf[1]}
    if tag == 'list':
        return [denorm(v) for v in nf[1]]
    if tag == 'tuple':
        return tuple(denorm(v) for v in nf[1])
    if tag == 'set':
        return set(_hashable(denorm(v)) for v in nf[1])
    raise ValueError(f"cannot rebuild {nf!r}")


def _hashable(v):
    if isinstance(v, list):
        return tuple(v)
    return v


# ------------------------------------------------------------------ mutable-node walk (used to aim scribbles)

def mutable_nodes(x, acc=None, depth=0):
    """Collect the reachable mutable nodes of a live value (lists, dicts, sets, Mods, Intervals, annotations)."""
    if acc is None:
        acc = {}
    if depth > 12 or x is None or isinstance(x, (bool, int, float, str, bytes)):
        return acc
    pt = _pt
    if id(x) in acc:
        return acc
    if isinstance(x, pt.ProFormaAnnotation):
        acc[id(x)] = x
        for v in (x.isotope_mods, x.static_mods, x.labile_mods, x.unknown_mods, x.nterm_mods, x.cterm_mods,
                  x.internal_mods, x.intervals, x.charge_adducts):
            mutable_nodes(v, acc, depth + 1)
    elif isinstance(x, pt.Mod):
        acc[id(x)] = x
    elif isinstance(x, pt.Interval):
        acc[id(x)] = x
        mutable_nodes(x.mods, acc, depth + 1)
    elif isinstance(x, (pt.Fragment, pt.FragmentMatch)):
        # frozen records; Fragment.parent_sequence is a back-reference to the parent by design (DESIGN.md, C08
        # scope notes) - a client editing it edits the parent knowingly, so it is not a scribble target
        pass
    elif isinstance(x, dict):
        acc[id(x)] = x
        for v in x.values():
            mutable_nodes(v, acc, depth + 1)
    elif isinstance(x, (list, set)):
        acc[id(x)] = x
        for v in x:
            mutable_nodes(v, acc, depth + 1)
    elif isinstance(x, tuple):
        for v in x:
            mutable_nodes(v, acc, depth + 1)
    elif isinstance(x, pt.EnzymeConfig):
        acc[id(x)] = x
        mutable_nodes(x.regex, acc, depth + 1)
    return acc
