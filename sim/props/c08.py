"""
C08 - Queries never change their arguments or depend on call history.

Simulated: 1-3 logical clients share a pool of caller-owned objects (annotations parsed once and reused, loss
lists, composition dicts, modification dicts/lists, fragment lists, enzyme configs).  The scheduler interleaves
their actions: catalogue calls, single steps / abandonment of lazy results, scribbles on returned values, use of
the caller's global RNG, refreshes of a vocabulary.  Invariants after every event: ARG, HIST, GLOBAL, ALIAS, LAZY
(DESIGN.md section 4).
"""
import copy
import json
import random

from sim import boot, catalog, glob, norm as N, spec as SP, world
from sim.kernel import Outcome, Violation, HarnessError, KnownFindings, sha
from sim.props import base

ID = 'C08'
pt = None
G = None
KNOWN = None
OPS = catalog.OPS

import os as _os
SURVEY = bool(_os.environ.get('VERIF_SURVEY'))
ONLY = _os.environ.get('VERIF_ONLY')
FAULT_KINDS = ['poison', 'abandon', 'interleave', 'rng', 'dbrefresh', 'scribble', 'reuse', 'owneredit', 'warnerr']


def setup():
    global pt, G, KNOWN
    if pt is None:
        pt = boot.import_library()
        N.bind(pt)
        glob.bind(pt)
        world.bind(pt)
        G = glob.Globals()
        import os
        KNOWN = KnownFindings(os.path.join(boot.VERIF, 'known_findings.json'))


FULL_GLOBAL = False      # content-hash process-wide state after every run (slow path, used to locate a culprit)
_CHEAP0 = None


def clean_start():
    """True iff process-wide state looks as it did right after import (a dirty worker is retired).
    Cheap form: sizes and identities of the vocabularies / constant tables; the content hash is taken at the end of
    every chunk (kernel) and after every run when FULL_GLOBAL is set."""
    global _CHEAP0
    setup()
    c = G.cheap()[1:]
    if _CHEAP0 is None:
        if G.diff_full() is not None:
            return False
        _CHEAP0 = c
        global _PRISTINE
        if _PRISTINE is None and not _os.environ.get('VERIF_NO_PRISTINE'):
            _PRISTINE = Pristine()       # forked now, before this process has executed a single event
        return True
    if c != _CHEAP0:
        return False
    if FULL_GLOBAL:
        return G.diff_full() is None
    return True


def shutdown():
    """stop the pristine server of this process (and reap it)"""
    global _PRISTINE
    if _PRISTINE is not None:
        p, _PRISTINE = _PRISTINE, None
        try:
            p.conn.send(None)
            p.conn.close()
            _os.waitpid(p.pid, 0)
        except Exception:
            pass


def chunk_end_clean():
    setup()
    return G.diff_full() is None


def set_full_global(flag):
    global FULL_GLOBAL
    FULL_GLOBAL = bool(flag)


def force_clean():
    global _CHEAP0
    setup()
    for name, f in world.DB_FILES.items():
        if glob.db_full([name])[name] != G.full_db0[name]:
            getattr(pt, name).reload_from_file(world.data_file(f))
    _CHEAP0 = None


# ------------------------------------------------------------------------------------------ pristine oracle

class Pristine:
    """A process forked while this one was still in its import-time state.  For sampled calls it forks once more and
    evaluates the same call on fresh twins there: "the first call on a fresh object" taken literally - no earlier call
    of this run *or of any earlier run in this worker* has happened in that process.  This is what notices a
    module-level cache keyed on too little, which a twin evaluated in the same process would hit as well."""

    def __init__(self):
        import multiprocessing
        import os
        self.conn, child = multiprocessing.Pipe()
        self.pid = os.fork()
        if self.pid == 0:
            self.conn.close()
            try:
                self._serve(child)
            finally:
                os._exit(0)
        child.close()

    @staticmethod
    def _serve(conn):
        import os
        import signal
        signal.signal(signal.SIGALRM, signal.SIG_DFL)
        signal.setitimer(signal.ITIMER_REAL, 0)
        while True:
            try:
                req = conn.recv()
            except (EOFError, OSError):
                return
            if req is None:
                return
            pid = os.fork()
            if pid == 0:
                try:
                    signal.alarm(60)
                    conn.send(_pristine_eval(req))
                except BaseException as e:  # noqa
                    try:
                        conn.send(['harness', repr(e)])
                    except Exception:
                        pass
                finally:
                    os._exit(0)
            os.waitpid(pid, 0)

    def eval(self, req):
        self.conn.send(req)
        if not self.conn.poll(90):
            raise HarnessError("pristine evaluation timed out")
        return self.conn.recv()


def _pristine_eval(req):
    o = OPS[req['op']]
    random.seed(req['rng'])
    cache = {}
    args = {}
    for k, a in req['args'].items():
        if 'h' in a:
            if a['h'] not in cache:
                cache[a['h']] = N.denorm(req['snaps'][a['h']])
            args[k] = cache[a['h']]
        elif 'v' in a:
            args[k] = copy.deepcopy(a['v'])
        elif 'nf' in a:
            args[k] = N.denorm(a['nf'])
        else:
            return ['harness', 'unsupported arg']
    ok_, r = _call(o, args)
    if ok_ and o.lazy:
        items = []
        try:
            for it in r:
                items.append(N.norm(it))
                if len(items) > 5000:
                    break
        except Exception as e:
            items.append(N.norm_exc(e))
        return ['ok', ['list', items]]
    return ['ok', N.norm(r)] if ok_ else ['ok', N.norm_exc(r)]


_PRISTINE = None


def pristine():
    return _PRISTINE


# ------------------------------------------------------------------------------------------ plan generation

def _aux_pool(S, cfg, pool, W, main_spec):
    """the non-annotation caller-owned objects"""
    def add(kind, handle, entry):
        pool[handle] = entry
        W['kinds'].setdefault(kind, []).append(handle)

    def nf_list(xs):
        return ['list', xs]

    def nf_vals(vals):
        # raw values; a third of them as Mod objects (the API accepts both)
        out = []
        for v, m in vals:
            out.append(['mod', v, m] if (m > 1 or S.coin(0.35)) else v)
        return out

    def all_mod(vals):
        return [['mod', v, m] for v, m in vals]

    seq = main_spec['seq']
    add('losses', 'L0', {'kind': 'nf', 'val': nf_list([['tuple', [S.pick(['[ST]', 'K', '[DE]', 'P']), -18.0]],
                                                       ['tuple', [S.pick(['[RK]', 'A', 'M']), -17.5]]][
                                                      :S.randint(1, 2)])})
    comp = [['C', S.randint(1, 40)], ['H', S.randint(1, 60)], ['O', S.randint(0, 10)], ['N', S.randint(0, 8)]]
    if S.coin(0.5):
        comp.append([S.pick(['e', 'p', 'n']), S.pick([-1, 1, 2])])
    if S.coin(0.3):
        comp.append(['S', 0])
    if S.coin(0.25):
        comp[1][1] = comp[1][1] + 0.5
    if S.coin(0.3):
        # a composition that already holds an element both plain and labelled (what comp() of a labelled peptide with
        # an unlabelled modification looks like)
        comp.append([S.pick(['13C', '15N', 'D']), S.randint(1, 6)])
    add('comp', 'C0', {'kind': 'nf', 'val': ['dict', S.shuffled(comp)]})
    add('gcomp', 'G0', {'kind': 'nf', 'val': ['dict', [['Hex', S.randint(1, 3)], ['HexNAc', S.randint(0, 2)]]]})
    # the same two objects in their documented string form (what a str argument is parsed into, and where, is the
    # library's business - the answers must be the same as for the dictionaries, whatever was called before)
    add('compstr', 'CS0', {'kind': 'nf', 'val': ''.join(f"{k}{v}" for k, v in comp if v != 0)})
    add('gcompstr', 'GS0', {'kind': 'nf', 'val': ''.join(f"{k}{v}" for k, v in pool['G0']['val'][1] if v != 0)})
    # modification dict for add_mods
    md = []
    for key in S.sample(['nterm', 'cterm', 'labile', 'unknown', 'isotope', 'static', 'charge', 'intervals',
                         'pos', 'pos'], S.randint(1, 4)):
        if key == 'charge':
            md.append(['charge', S.pick([1, 2, 3])])
        elif key == 'isotope':
            md.append(['isotope', nf_list([S.pick(SP.ISOTOPES)]) if S.coin() else S.pick(SP.ISOTOPES)])
        elif key == 'static':
            md.append(['static', nf_list(['[1]@' + S.pick(list(seq))])])
        elif key == 'intervals':
            s = S.randint(0, max(0, len(seq) - 1))
            e = S.randint(s + 1, len(seq)) if len(seq) > s else s + 1
            md.append(['intervals', nf_list([['tuple', [s, e, False, nf_list(nf_vals(SP.gen_mods(S, cfg, 1, 1)))]]])])
        elif key == 'pos':
            md.append([S.randint(0, max(0, len(seq) - 1)), nf_list(nf_vals(SP.gen_mods(S, cfg, 1, 2)))
                       if S.coin(0.7) else SP.gen_value(S, cfg)])
        elif key == 'labile':
            # labile modifications are documented as Mod objects only (add_labile_mods: Union[List[Mod], Mod])
            md.append([key, nf_list(all_mod(SP.gen_mods(S, cfg, 1, 2))) if S.coin(0.7) else
                       ['mod', SP.gen_value(S, cfg), 1]])
        else:
            md.append([key, nf_list(nf_vals(SP.gen_mods(S, cfg, 1, 2))) if S.coin(0.7) else SP.gen_value(S, cfg)])
    seen, md2 = set(), []
    for k, v in md:
        if k not in seen:
            seen.add(k)
            md2.append([k, v])
    add('moddict', 'M0', {'kind': 'nf', 'val': ['dict', md2]})
    res = list(dict.fromkeys(seq))
    add('smods', 'SM0', {'kind': 'nf', 'val': ['dict', [[S.pick(res), nf_list(nf_vals(SP.gen_mods(S, cfg, 1, 2)))
                                                          if S.coin(0.7) else SP.gen_value(S, cfg)]]]})
    add('tmods', 'TM0', {'kind': 'nf', 'val': nf_list(nf_vals(SP.gen_mods(S, cfg, 1, 2))) if S.coin(0.6) else
                         ['dict', [[S.pick(['', seq[0], seq[-1]]), nf_list(nf_vals(SP.gen_mods(S, cfg, 1, 1)))]]]})
    add('vmods', 'VM0', {'kind': 'nf', 'val': ['dict', [[S.pick(res), nf_list(
        [nf_list(nf_vals(SP.gen_mods(S, cfg, 1, 1))) for _ in range(S.randint(1, 2))]) if S.coin(0.6) else
        nf_list(nf_vals(SP.gen_mods(S, cfg, 1, 2)))]]]})
    # the same rules in their most explicit documented form: nested groups of Mod OBJECTS, one group empty
    groups = [nf_list(all_mod(SP.gen_mods(S, cfg, 1, 1))) for _ in range(S.randint(1, 2))]
    groups.insert(S.randint(0, len(groups)), nf_list([]))
    add('vmods', 'VM1', {'kind': 'nf', 'val': ['dict', [[S.pick(res), nf_list(groups)]]]})
    tgroups = [nf_list(all_mod(SP.gen_mods(S, cfg, 1, 1))), nf_list([])]
    add('tmods', 'TM1', {'kind': 'nf', 'val': nf_list(tgroups[::S.pick([1, -1])]) if S.coin(0.5) else
                         ['dict', [['', nf_list(tgroups)]]]})
    add('modlist', 'ML0', {'kind': 'nf', 'val': nf_list(nf_vals(SP.gen_mods(S, cfg, 1, 3)))})
    # lists of Mod / Interval OBJECTS and single values, for the exported helper functions
    mo = SP.gen_mods(S, cfg, 1, 3)
    add('modobjs', 'MO0', {'kind': 'nf', 'val': nf_list(all_mod(mo))})
    add('modobjs', 'MO1', {'kind': 'nf', 'val': nf_list(all_mod(mo[::-1] if S.coin(0.6) else SP.gen_mods(S, cfg, 1, 2)))})
    add('modgroups', 'MG0', {'kind': 'nf', 'val': nf_list([nf_list(all_mod(SP.gen_mods(S, cfg, 1, 2))), nf_list([]),
                                                            nf_list(all_mod(SP.gen_mods(S, cfg, 1, 1)))][:S.randint(2, 3)])})
    add('modone', 'MD0', {'kind': 'nf', 'val': ['mod', SP.gen_value(S, cfg), S.pick([1, 1, 2])]})
    iv_a = ['interval', 0, 2, False, all_mod(SP.gen_mods(S, cfg, 1, 2))]
    iv_b = ['interval', 2, 3, True, None]
    add('ivobjs', 'IO0', {'kind': 'nf', 'val': nf_list([iv_a, iv_b])})
    add('ivobjs', 'IO1', {'kind': 'nf', 'val': nf_list([iv_b, copy.deepcopy(iv_a)] if S.coin(0.6) else [iv_b])})
    add('ivone', 'IV1', {'kind': 'nf', 'val': ['tuple', [1, 3, False, nf_list(nf_vals(SP.gen_mods(S, cfg, 1, 2)))]]
                         if S.coin(0.6) else copy.deepcopy(iv_a)})
    add('isolist', 'IL0', {'kind': 'nf', 'val': nf_list([['mod', i, 1] if S.coin(0.4) else i
                                                         for i in S.sample(SP.ISOTOPES[:5], S.randint(1, 2))])})
    add('staticlist', 'SL0', {'kind': 'nf', 'val': nf_list(
        [(['mod', s, 1] if S.coin(0.4) else s) for s in ['[57]@C', '[Oxidation]@M,N-Term', '[1]^2@K'][:S.randint(1, 3)]])})
    add('staticdict', 'SD0', {'kind': 'nf', 'val': ['dict', [['C', nf_list([['mod', 57, 1]])],
                                                             ['M', nf_list([['mod', 'Oxidation', 1]])]]]})
    add('intdict', 'ID0', {'kind': 'nf', 'val': ['dict', [[S.randint(0, 2), nf_list(nf_vals(SP.gen_mods(S, cfg, 1, 2)))],
                                                          [3, SP.gen_value(S, cfg) if S.coin() else
                                                           nf_list(nf_vals(SP.gen_mods(S, cfg, 1, 1)))]]]})
    add('ivlist', 'IV0', {'kind': 'nf', 'val': nf_list(
        [['tuple', [0, 2, False, nf_list(nf_vals(SP.gen_mods(S, cfg, 1, 1)))]] if S.coin(0.6) else
         ['interval', 0, 2, False, [['mod', 1, 1]]],
         ['interval', 2, 3, True, None]][:S.randint(1, 2)])})
    fs = SP.gen_pep(S, dict(cfg, p=dict(cfg['p'], unknown=0, intervals=0, labile=0), maxlen=8, minlen=3))
    add('frags', 'F0', {'kind': 'frags', 'spec': fs, 'ion_types': S.sample(['b', 'y', 'a'], 2), 'charges': [1, 2]})
    add('fmatches', 'FM0', {'kind': 'fmatches', 'spec': fs, 'ion_types': ['b', 'y'], 'charges': [1]})
    mzs = sorted(round(100 + 37.5 * i + S.randint(0, 9) * 0.01, 4) for i in range(S.randint(3, 12)))
    if S.coin(0.5):
        mzs = S.shuffled(mzs)
    add('mz', 'Z0', {'kind': 'nf', 'val': nf_list(mzs)})
    # a second m/z list in DESCENDING order (what fragment(..., return_type='mz') gives for a b-series), slightly
    # off the first one so that tolerance windows are hit from both sides
    add('mz', 'Z1', {'kind': 'nf', 'val': nf_list(sorted((round(m + S.pick([-0.3, -0.01, 0.0, 0.01, 0.3]), 4)
                                                          for m in mzs[:S.randint(2, len(mzs))]), reverse=True))})
    add('inten', 'I0', {'kind': 'nf', 'val': nf_list([float(S.randint(1, 100)) for _ in mzs])})
    # sub-peptides of the main annotation
    n = len(seq)
    subs = []
    for _ in range(S.randint(1, 3)):
        i = S.randint(0, n - 1)
        j = S.randint(i + 1, n)
        subs.append(seq[i:j])
    add('subs', 'SUB0', {'kind': 'nf', 'val': nf_list(subs)})
    add('subpep', 'SP0', {'kind': 'nf', 'val': subs[0]})
    # modified sub-peptides as parsed annotations of their own: a true slice around a modified residue, and its
    # positional isomer (the same modifications on another residue of the window)
    modded = sorted(int(x) for x in main_spec['internal'])
    if modded and n >= 2 and not main_spec['intervals']:
        p = S.pick(modded)
        i = S.randint(max(0, p - 2), p)
        j = S.randint(p + 1, min(n, p + 3))
        if j - i < 2:
            i, j = (max(0, p - 1), p + 1) if p > 0 else (0, min(n, 2))
        add('subpep_ann', 'SA0', {'kind': 'subann', 'spec': main_spec, 'i': i, 'j': j, 'move': None})
        free = [q for q in range(i, j) if q != p and q not in modded]
        if free:
            add('subpep_ann', 'SA1', {'kind': 'subann', 'spec': main_spec, 'i': i, 'j': j,
                                      'move': [p - i, S.pick(free) - i]})
    add('enz', 'E0', {'kind': 'nf', 'val': ['enzcfg', nf_list([S.pick(catalog.ENZ)]), S.pick([0, 1, 2]), S.coin(0.3),
                                            S.coin(0.8)]})
    add('enzs', 'EL0', {'kind': 'nf', 'val': nf_list(
        [['enzcfg', nf_list([S.pick(['([KR])', 'trypsin/P', 'lys-c'])]), S.pick([0, 1]), False, S.coin(0.8)],
         ['enzcfg', nf_list([S.pick(['([D])', 'asp-n', 'glu-c'])]), 0, S.coin(0.2), S.coin(0.8)]])})
    add('dist', 'D0', {'kind': 'nf', 'val': nf_list([['tuple', [100.0 + i, 1.0 / (i + 1)]] for i in range(3)])})
    add('dist', 'D1', {'kind': 'nf', 'val': nf_list([['tuple', [101.0 + i, 0.5 / (i + 1)]] for i in range(2)])})
    add('ions', 'IT0', {'kind': 'nf', 'val': nf_list(S.sample(catalog.ION1, 2))})
    add('charges', 'CH0', {'kind': 'nf', 'val': nf_list([1, 2])})
    add('sites', 'ES0', {'kind': 'nf', 'val': nf_list(sorted(S.sample(range(1, 8), 3)))})
    add('spanlist', 'SPL0', {'kind': 'nf', 'val': nf_list([['tuple', [0, 4, 0]], ['tuple', [4, 9, 0]],
                                                           ['tuple', [0, 9, 1]]])})
    add('regexes', 'RX0', {'kind': 'nf', 'val': nf_list([S.pick(catalog.ENZ), S.pick(catalog.ENZ)][:S.randint(1, 2)])})


def _mk_world(S, cfg, specs, vias, tier):
    pool = {}
    W = {'kinds': {}, 'specs': {}, 'results': {}, 'sticky': {'enzyme': S.pick(catalog.ENZ)}}
    for i, sp in enumerate(specs):
        h = f'A{i}'
        pool[h] = {'kind': 'ann', 'via': vias[i], 'spec': sp}
        if vias[i] == 'create':
            pool[h]['order'] = SP.gen_order(S, sp)
        W['kinds'].setdefault('ann', []).append(h)
        W['specs'][h] = sp
        if len(sp['seq']) <= 5:
            W['kinds'].setdefault('shortann', []).append(h)
    # the plain string form of the first annotation
    pool['S0'] = {'kind': 'str', 'spec': specs[0]}
    W['kinds']['str'] = ['S0']
    W['specs']['S0'] = specs[0]
    _aux_pool(S, cfg, pool, W, specs[0])
    return pool, W


def gen_plan(S, index, tier):
    opnames = sorted(OPS)
    npairs = len(opnames) ** 2
    pair_specs = 3 if tier == 'quick' else len(world.FIXED_SPECS)
    pair_runs = npairs * pair_specs
    header = {'property': ID, 'seed': S.seed, 'index': index, 'tier': tier}
    if index < pair_runs:
        return _gen_pair_plan(S, index, header, opnames, tier)
    sweep_runs = len(opnames) * len(world.FIXED_SPECS) * len(POISON_SPOTS)
    if index < pair_runs + sweep_runs:
        return _gen_poison_plan(S, index - pair_runs, header, opnames)
    queries = [n for n in opnames if 'editor' not in OPS[n].tags]
    sandwich_runs = len(queries) * len(world.FIXED_SPECS) * 2
    if index < pair_runs + sweep_runs + sandwich_runs:
        return _gen_sandwich_plan(S, index - pair_runs - sweep_runs, header, queries)
    lazies = [n for n in opnames if OPS[n].lazy]
    lazy_runs = len(lazies) * len(queries) * 2
    if index < pair_runs + sweep_runs + sandwich_runs + lazy_runs:
        return _gen_lazy_pair_plan(S, index - pair_runs - sweep_runs - sandwich_runs, header, lazies, queries)
    same_runs = len(lazies) * 8
    if index < pair_runs + sweep_runs + sandwich_runs + lazy_runs + same_runs:
        return _gen_same_call_plan(S, index - pair_runs - sweep_runs - sandwich_runs - lazy_runs, header, lazies)
    long_runs = len(opnames)
    off = pair_runs + sweep_runs + sandwich_runs + lazy_runs + same_runs
    if index < off + long_runs:
        return _gen_long_plan(S, index - off, header, opnames)
    off += long_runs
    retype_runs = len(queries) * len(world.FIXED_SPECS)
    if index < off + retype_runs:
        return _gen_retype_plan(S, index - off, header, queries)
    plan = _gen_random_plan(S, header, tier)
    if index % 8 == 5:
        plan['header']['ambient'] = True   # non-default interpreter settings for this run
    if index % 8 == 3:
        plan['header']['cold'] = True      # restart fault: this run executes in a process that has run nothing
    return plan


LONG_SKIP = set()       # ops whose cost on a protein-sized annotation is out of proportion (filled from measurements)


def _long_spec(S, light=False):
    """a protein-sized annotation: 520-1100 residues, a handful of modifications of every kind that fragmentation-free
    queries accept"""
    n = S.pick([520, 640, 1100])
    if light:
        n = 520         # ops whose cost per ion grows with the length (fragmentation of a labelled protein is cubic)
    seq = ''.join(S.pick(SP.STD) for _ in range(n))
    internal = {}
    for _ in range(S.randint(2, 5)):
        internal[str(S.randint(0, n - 1))] = [[S.pick(['Phospho', 'Oxidation', 15.9949, 'Methyl']), 1]]
    internal[str(n - 1)] = [['Methyl', 1]]
    return {'seq': seq, 'labile': [['Glycan:Hex', 1]] if S.coin(0.5) else [], 'static': ['[57.021464]@C'] if S.coin(0.6) else [],
            'isotope': ['13C'] if S.coin(0.3) and not light else [], 'unknown': [],
            'nterm': [['Acetyl', 1]] if S.coin(0.6) else [],
            'cterm': [['Amidated', 1]] if S.coin(0.4) else [], 'internal': internal, 'intervals': [],
            'charge': S.pick([None, 2, 3]), 'adducts': None}


def _gen_long_plan(S, k, header, opnames):
    """size as a configuration knob: every catalogue op once on a protein-sized shared annotation (whatever the library
    does differently for long input - recursion depth, chunking, caches that overflow - happens here), followed by a
    second call of the same op (history) and, in a cold process, so that first-use state is being built"""
    name = opnames[k]
    cfg = SP.swarm_cfg(S)
    sp = _long_spec(S, light='ragment' in name or 'fmatch' in name or 'match' in name)
    short = copy.deepcopy(world.FIXED_SPECS[3])
    pool, W = _mk_world(S, cfg, [sp, short], ['parse', 'parse'], 'quick')
    header.update({'mode': 'long', 'op': name, 'clients': 1, 'faults': ['restart'], 'cold': True, 'len': len(sp['seq']),
                   'ambient': True})
    events = []
    o = OPS[name]
    if name in LONG_SKIP:
        return {'header': header, 'pool': pool, 'events': events}
    args = None
    for _ in range(6):
        args = args or o.gen(S, W)
    if args is None:
        return {'header': header, 'pool': pool, 'events': events}
    if 'max_mods' in args:
        # the variable-modification builder on protein-sized input: at most one site at a time, never re-modifying
        args['max_mods'] = {'v': 1}
        args['mode'] = {'v': 'skip'}
    if 'size' not in args:
        for an, av in args.items():
            if isinstance(av, dict) and av.get('h') in ('A1', 'S0') and an in ('sequence', 'self', 'other'):
                args[an] = {'h': 'A0'}
    if 'ion_types' in args:
        # cost: one terminal series, one charge, no isotopes, at most one loss per ion (internal ions are quadratic
        # in the length, and every extra setting multiplies a list of a thousand ions)
        it = args['ion_types'].get('v')
        first = (it if isinstance(it, str) else (it or ['b'])[0]) if it is not None else 'b'
        args['ion_types'] = {'v': first if first in 'abcxyz' and len(first) == 1 else 'b'}
        args['charges'] = {'v': 1}
        args['isotopes'] = {'v': 0}
        if 'max_losses' in args:
            args['max_losses'] = {'v': 1}
        if 'losses' in args:
            args['losses'] = {'v': None}
        for flag in ('water_loss', 'ammonia_loss'):
            if flag in args:
                args[flag] = {'v': False}
    header['soft_timeout'] = 60
    for rep in range(2):
        rh = f'R{rep}'
        events.append({'act': 'call', 'client': 0, 'op': name, 'args': copy.deepcopy(args), 'out': rh,
                       'twin_first': rep == 1})
        if o.lazy:
            for _ in range(3):
                events.append({'act': 'step', 'client': 0, 'lazy': rh})
            events.append({'act': 'close', 'client': 0, 'lazy': rh})
    return {'header': header, 'pool': pool, 'events': events}


def _gen_retype_plan(S, k, header, queries):
    """equal but differently typed: a query, then the client rewrites the numbers in the objects it passed in the
    other numeric type (-18.0 -> -18, Mod(1, 1) -> Mod(1.0, 1): same value, same hash), then the same query again -
    compared with the same call on fresh objects in the pristine process (a memo keyed by == / hash answers the second
    call with what it stored for the first)"""
    si, qi = divmod(k, len(queries))
    name = queries[qi]
    o = OPS[name]
    cfg = SP.swarm_cfg(S)
    sp = copy.deepcopy(world.FIXED_SPECS[si % len(world.FIXED_SPECS)])
    short = copy.deepcopy(world.FIXED_SPECS[3])
    pool, W = _mk_world(S, cfg, [sp, short], ['parse', 'parse'], 'quick')
    header.update({'mode': 'retype', 'op': name, 'spec': si, 'clients': 1, 'faults': ['owneredit']})
    events = []
    args = None
    best = -1
    for _ in range(10):       # prefer the argument set that passes the most caller-owned lists / dictionaries
        cand = o.gen(S, W)
        if cand is not None:
            score = sum(1 for a in cand.values() if 'h' in a and a['h'][0] not in 'AS')
            if score > best:
                args, best = cand, score
    if args is None:
        return {'header': header, 'pool': pool, 'events': events}
    if 'size' not in args and 'max_mods' not in args:
        for an, av in args.items():
            if isinstance(av, dict) and av.get('h') in ('A1', 'S0') and an in ('sequence', 'self'):
                args[an] = {'h': 'A0'}
    events.append({'act': 'call', 'client': 0, 'op': name, 'args': args, 'out': 'R0', 'twin_first': S.coin(0.5)})
    if o.lazy:
        events.append({'act': 'drain', 'client': 0, 'lazy': 'R0'})
    for h in sorted(set(a['h'] for a in args.values() if 'h' in a and a['h'][0] != 'S')):
        events.append({'act': 'owneredit', 'client': 0, 'h': h, 'k': 4, 'only': 'retype'})
        if h.startswith('E') and not h.startswith('EL'):
            # a configuration object the library handed the client a class for: its rules edited between two calls
            events.append({'act': 'owneredit', 'client': 0, 'h': h, 'k': 1})
    args2 = copy.deepcopy(args)
    for an, av in args2.items():
        if 'v' in av and isinstance(av['v'], float) and av['v'] == int(av['v']) and abs(av['v']) < 1e9:
            av['v'] = int(av['v'])
    events.append({'act': 'call', 'client': 0, 'op': name, 'args': args2, 'out': 'R1', 'twin_first': False,
                   'pristine': True})
    if o.lazy:
        events.append({'act': 'drain', 'client': 0, 'lazy': 'R1'})
    return {'header': header, 'pool': pool, 'events': events}


_SAME_PAIRS = [(0, 1), (2, 4), (1, 0), (4, 2)]      # FIXED_SPECS of equal length


def _gen_same_call_plan(S, k, header, lazies):
    """two clients make the *same* lazy call - on one shared object, or on two unrelated objects of equal length -
    and consume their results interleaved, the later one overtaking the earlier; in a process that has executed
    nothing before (restart fault), so that whatever the library builds on first use is being built right now"""
    li, v = divmod(k, 8)
    a, b = _SAME_PAIRS[v % 4]
    cfg = SP.swarm_cfg(S)
    pool, W = _mk_world(S, cfg, [copy.deepcopy(world.FIXED_SPECS[a]), copy.deepcopy(world.FIXED_SPECS[b])],
                        ['parse', 'parse'], 'quick')
    W['sticky']['enzyme'] = S.pick(['trypsin', 'trypsin/P', '([KR])', 'lys-c', 'asp-n', '(?=D)', 'non-specific'])
    lname = lazies[li]
    header.update({'mode': 'same-call', 'pair': [lname, lname], 'clients': 2, 'faults': ['interleave', 'restart'],
                   'cold': True})
    W1 = dict(W, kinds=dict(W['kinds'], ann=['A0']))
    la = None
    for _ in range(6):
        la = la or OPS[lname].gen(S, W1)
    events = []
    if la is None:
        return {'header': header, 'pool': pool, 'events': events}
    lb = copy.deepcopy(la)
    if v >= 4:      # the other client asks about its own, unrelated object
        for an, av in lb.items():
            if isinstance(av, dict) and av.get('h') == 'A0':
                lb[an] = {'h': 'A1'}
    events.append({'act': 'call', 'client': 0, 'op': lname, 'args': la, 'out': 'R0', 'twin_first': False,
                   'ref': 'pristine'})
    for _ in range(S.randint(0, 2)):
        events.append({'act': 'step', 'client': 0, 'lazy': 'R0'})
    events.append({'act': 'call', 'client': 1, 'op': lname, 'args': lb, 'out': 'R1', 'twin_first': False,
                   'ref': 'pristine'})
    n1 = S.randint(1, 4)
    for _ in range(n1):
        events.append({'act': 'step', 'client': 1, 'lazy': 'R1'})
    events.append({'act': 'step', 'client': 0, 'lazy': 'R0'})
    order = [('drain', 1, 'R1'), ('drain', 0, 'R0')]
    if S.coin(0.3):
        order.reverse()
    for act, c, r in order:
        events.append({'act': act, 'client': c, 'lazy': r})
    return {'header': header, 'pool': pool, 'events': events}


def _gen_lazy_pair_plan(S, k, header, lazies, queries):
    """a lazy result is opened and advanced by one item, then another client's query runs (also evaluated in the
    pristine process), then the lazy result is either drained or abandoned: every (lazy op, query) pair, twice"""
    rep, rest = divmod(k, len(lazies) * len(queries))
    li, qi = divmod(rest, len(queries))
    cfg = SP.swarm_cfg(S)
    sp = copy.deepcopy(world.FIXED_SPECS[rep % 2 * 2])      # Spec 0 or Spec 2
    short = copy.deepcopy(world.FIXED_SPECS[3])
    pool, W = _mk_world(S, cfg, [sp, short], ['parse', 'parse'], 'quick')
    W['sticky']['enzyme'] = S.pick(['trypsin', 'trypsin/P', '([KR])', 'lys-c', 'asp-n', '(?=D)'])
    lname, qname = lazies[li], queries[qi]
    header.update({'mode': 'lazy-pair', 'pair': [lname, qname], 'clients': 2, 'faults': ['interleave', 'abandon']})
    if rep == 1:
        header['cold'] = True             # restart fault: the second pass of the family runs in cold processes
    events = []
    la = qa = None
    for _ in range(6):
        la = la or OPS[lname].gen(S, W)
        qa = qa or OPS[qname].gen(S, W)
    if la is None or qa is None:
        return {'header': header, 'pool': pool, 'events': events}
    for args in (la, qa):
        if 'size' not in args and 'max_mods' not in args:
            for an, av in args.items():
                if isinstance(av, dict) and av.get('h') in ('A1', 'S0') and an in ('sequence', 'self'):
                    args[an] = {'h': 'A0'}
    events.append({'act': 'call', 'client': 0, 'op': lname, 'args': la, 'out': 'R0', 'twin_first': S.coin(0.5),
                   'ref': 'pristine'})
    events.append({'act': 'step', 'client': 0, 'lazy': 'R0'})
    events.append({'act': 'call', 'client': 1, 'op': qname, 'args': qa, 'out': 'R1', 'twin_first': S.coin(0.5),
                   'pristine': True})
    if OPS[qname].lazy:
        events.append({'act': 'drain', 'client': 1, 'lazy': 'R1'})
    events.append({'act': 'close' if S.coin(0.4) else 'drain', 'client': 0, 'lazy': 'R0'})
    # and once more afterwards: the history of an abandoned / interleaved lazy result must not show
    events.append({'act': 'call', 'client': 1, 'op': qname, 'args': copy.deepcopy(qa), 'out': 'R2', 'twin_first': False,
                   'pristine': True})
    if OPS[qname].lazy:
        events.append({'act': 'drain', 'client': 1, 'lazy': 'R2'})
    return {'header': header, 'pool': pool, 'events': events}


def _gen_sandwich_plan(S, k, header, queries):
    """query, explicit editor, the same query again - on one shared annotation: what the query returns after the
    edit must be what a fresh object with the edited content returns (a cache the editor did not invalidate)"""
    n = len(queries)
    rep, rest = divmod(k, n * len(world.FIXED_SPECS))
    si, qi = divmod(rest, n)
    cfg = SP.swarm_cfg(S)
    sp = copy.deepcopy(world.FIXED_SPECS[si])
    short = copy.deepcopy(world.FIXED_SPECS[3])
    pool, W = _mk_world(S, cfg, [sp, short], ['parse', 'parse'], 'quick')
    name = queries[qi]
    o = OPS[name]
    header.update({'mode': 'sandwich', 'op': name, 'spec': si, 'clients': 2, 'faults': []})
    events = []
    args = None
    for _ in range(6):
        args = o.gen(S, W)
        if args is not None:
            break
    if args is None:
        return {'header': header, 'pool': pool, 'events': events}
    target = None
    for an, av in args.items():
        if isinstance(av, dict) and av.get('h') in ('A0', 'A1'):
            target = av['h']
            break
    if target is None:
        target = 'A0'
    W2 = dict(W, kinds=dict(W['kinds'], ann=[target]))
    ed = S.pick(catalog.EDITORS + ['add_mods'])
    eargs = None
    for _ in range(6):
        eargs = OPS[ed].gen(S, W2)
        if eargs is not None:
            break
    if eargs is None:
        return {'header': header, 'pool': pool, 'events': events}
    if ed == 'add_mods':
        eargs['sequence'] = {'h': target}
    header['editor'] = ed
    nres = 0
    for c, (nm, ar) in enumerate(((name, args), (ed, eargs), (name, copy.deepcopy(args)))):
        rh = f'R{nres}'
        nres += 1
        events.append({'act': 'call', 'client': c % 2, 'op': nm, 'args': ar, 'out': rh, 'twin_first': S.coin(0.5)})
        if OPS[nm].lazy:
            events.append({'act': 'drain', 'client': c % 2, 'lazy': rh})
    return {'header': header, 'pool': pool, 'events': events}


POISON_SPOTS = ['first', 'last', 'cterm']
ANN_RETURNING = {'ann.copy', 'ann.py_deepcopy', 'ann.py_pickle', 'ann.slice', 'ann.shift', 'ann.reverse', 'ann.shuffle_seeded', 'ann.sort_residues',
                 'ann.strip', 'ann.condense_static_mods', 'apply_static_mods', 'apply_variable_mods',
                 'create_annotation', 'ann.permutations', 'ann.combinations', 'ann.product',
                 'ann.combinations_with_replacement'}


def _gen_poison_plan(S, k, header, opnames):
    """fault enumeration in the small: every catalogue op once on every fixed Spec with one unresolvable
    modification at the first residue / the last residue / the C-terminus - the call may fail part-way (validation
    of modification names is deferred until a mass is needed) and must leave everything as it was"""
    n = len(opnames)
    spot, rest = divmod(k, n * len(world.FIXED_SPECS))
    si, oi = divmod(rest, n)
    cfg = SP.swarm_cfg(S)
    sp = copy.deepcopy(world.FIXED_SPECS[si])
    val = SP.POISON[(si + oi + spot) % len(SP.POISON)]
    where = POISON_SPOTS[spot]
    if where == 'cterm':
        sp['cterm'] = list(sp['cterm']) + [[val, 1]]
    else:
        i = 0 if where == 'first' else len(sp['seq']) - 1
        sp['internal'].setdefault(str(i), []).append([val, 1])
    short = copy.deepcopy(world.FIXED_SPECS[3])
    pool, W = _mk_world(S, cfg, [sp, short], ['parse', 'parse'], 'quick')
    name = opnames[oi]
    o = OPS[name]
    header.update({'mode': 'poison-sweep', 'op': name, 'spec': si, 'clients': 1, 'faults': ['poison'],
                   'poisoned': ['A0', where, val]})
    events = []
    nres = 0
    args = None
    for _ in range(6):
        args = o.gen(S, W)
        if args is not None:
            break
    if args is None and name in ('Fragmenter.fragment', 'Fragment.to_dict'):
        return {'header': header, 'pool': pool, 'events': events}
    if args is None:
        return {'header': header, 'pool': pool, 'events': events}
    if 'size' not in args and 'max_mods' not in args:      # combinatorial ops stay on the short peptide
        for an, av in args.items():
            if isinstance(av, dict) and av.get('h') in ('A1', 'S0') and an in ('sequence', 'self', 'subsequence', 'other'):
                args[an] = {'h': 'A0'}
    events.append({'act': 'call', 'client': 0, 'op': name, 'args': args, 'out': 'R0', 'twin_first': S.coin(0.5)})
    if o.lazy:
        events.append({'act': 'drain', 'client': 0, 'lazy': 'R0'})
    # a second, mass-resolving call afterwards: the history of a failed call must not show
    events.append({'act': 'call', 'client': 0, 'op': 'mass', 'args': OPS['mass'].gen(S, W) | {'sequence': {'h': 'A0'}},
                   'out': 'R1', 'twin_first': False})
    return {'header': header, 'pool': pool, 'events': events}


def _gen_pair_plan(S, index, header, opnames, tier='quick'):
    n = len(opnames)
    k, rest = divmod(index, n * n)
    i, j = divmod(rest, n)
    if tier == 'quick':
        # three of the five fixed Specs per ordered pair, rotating with the pair (the thorough tier takes all five)
        k = (2 * k + i + j) % len(world.FIXED_SPECS)
    cfg = SP.swarm_cfg(S)
    sp = copy.deepcopy(world.FIXED_SPECS[k])
    short = copy.deepcopy(world.FIXED_SPECS[3])
    pool, W = _mk_world(S, cfg, [sp, short], ['parse', 'parse'], 'quick')
    events = []
    header.update({'mode': 'pairs', 'pair': [opnames[i], opnames[j]], 'spec': k, 'clients': 2,
                   'faults': ['reuse']})
    nres = 0
    for c, name in enumerate((opnames[i], opnames[j])):
        o = OPS[name]
        args = None
        for _ in range(6):
            args = o.gen(S, W)
            if args is not None:
                break
        if args is None and name in ('Fragmenter.fragment', 'Fragment.to_dict'):
            # needs a producer first
            prod = 'Fragmenter.new' if name == 'Fragmenter.fragment' else 'fragment'
            pa = OPS[prod].gen(S, W)
            if prod == 'fragment':
                pa['return_type'] = {'v': 'fragment'}
            rh = f'R{nres}'
            nres += 1
            events.append({'act': 'call', 'client': c, 'op': prod, 'args': pa, 'out': rh, 'twin_first': False})
            W['results'][rh] = prod
            args = o.gen(S, W)
        if args is None:
            continue
        # bias: make both calls hit the same shared annotation
        for an, av in args.items():
            if isinstance(av, dict) and av.get('h') in ('A0', 'A1', 'S0') and an in ('sequence', 'self') \
                    and W['kinds'].get('ann'):
                if 'size' not in args and 'max_mods' not in args:
                    args[an] = {'h': 'A0'}
        rh = f'R{nres}'
        nres += 1
        events.append({'act': 'call', 'client': c, 'op': name, 'args': args, 'out': rh, 'twin_first': S.coin(0.5),
                       'pristine': c == 1 and S.coin(0.25 if tier == 'quick' else 0.9)})
        W['results'][rh] = name
        if o.lazy:
            events.append({'act': 'drain', 'client': c, 'lazy': rh})
    return {'header': header, 'pool': pool, 'events': events}


def _gen_random_plan(S, header, tier):
    fault_free = S.coin(0.2)
    faults = [] if fault_free else [f for f in FAULT_KINDS if S.coin(0.55)]
    maxlen = S.pick([6, 12, 25])
    cfg = SP.swarm_cfg(S, maxlen=maxlen)
    nann = S.randint(1, 3)
    specs = [SP.gen_pep(S, cfg) for _ in range(nann)]
    if S.coin(0.4):
        specs.append(SP.gen_pep(S, dict(cfg, maxlen=4)))
    poisoned = None
    if 'poison' in faults and S.coin(0.5):
        k = S.randint(0, len(specs) - 1)
        specs[k], where, val = SP.poison(S, specs[k])
        poisoned = [f'A{k}', where, val]
    if S.coin(0.08):
        # a peptide with NO residues that still carries global rules (what an empty slice of a protein is)
        e = SP.gen_pep(S, dict(cfg, maxlen=3, minlen=1))
        e.update({'seq': '', 'internal': {}, 'intervals': [], 'unknown': [], 'cterm': []})
        if not e['static']:
            e['static'] = ['[57]@C', '[Acetyl]@N-Term'][:S.randint(1, 2)]
        specs.append(e)
    vias = [S.pick(['parse', 'parse', 'create']) for _ in specs]
    pool, W = _mk_world(S, cfg, specs, vias, tier)
    nclients = S.randint(1, 3)
    # swarm: restrict the op catalogue for this run
    names = sorted(OPS)
    if S.coin(0.6):
        names = S.sample(names, S.randint(6, 30))
        for must in ('Fragmenter.new', 'fragment'):
            if ('Fragmenter.fragment' in names and must == 'Fragmenter.new') or \
                    ('Fragment.to_dict' in names and must == 'fragment'):
                if must not in names:
                    names.append(must)
    header.update({'mode': 'random', 'clients': nclients, 'faults': faults, 'fault_free': fault_free,
                   'poisoned': poisoned, 'ops': names if len(names) < len(OPS) else 'all', 'maxlen': maxlen,
                   'rng0': S.randint(0, 10 ** 6)})
    events = []
    open_lazy = []
    nres = 0
    ncalls = S.randint(2, 12)
    calls = 0
    guard = 0
    while calls < ncalls and guard < 80:
        guard += 1
        client = S.randint(0, nclients - 1)
        choices = [('call', 6.0)]
        if open_lazy:
            choices.append(('step', 5.0 if 'interleave' in faults else 2.0))
            choices.append(('drain', 1.0))
            if 'abandon' in faults:
                choices.append(('close', 1.0))
        if W['results'] and 'scribble' in faults:
            choices.append(('scribble', 2.0))
        if 'rng' in faults:
            choices.append(('rng', 1.0))
        if 'dbrefresh' in faults and S.coin(0.03):
            choices.append(('dbrefresh', 1.0))
        if 'owneredit' in faults and calls:
            choices.append(('owneredit', 1.5))
        act = S.weighted(choices)
        if act == 'owneredit':
            # the client edits, in place, a list / dictionary / config object of its own that it has been passing to
            # calls and goes on passing the same object: later calls must see the new content, nothing stale
            used = sorted(set(a['h'] for e in events if e['act'] == 'call' for a in e['args'].values()
                              if 'h' in a and a['h'][0] != 'S'))
            if used:
                events.append({'act': 'owneredit', 'client': client, 'h': S.pick(used), 'k': S.randint(0, 999)})
            continue
        if act == 'call':
            po = catalog.pick_op(S, W, names)
            if po is None:
                continue
            name, args = po
            ann_results = [r for r, o_ in W['results'].items() if o_ in ANN_RETURNING]
            if ann_results and S.coin(0.15):
                for an in ('sequence', 'self', 'subsequence', 'other'):
                    if an in args and 'h' in args[an] and 'size' not in args and 'max_mods' not in args \
                            and an not in OPS[name].exempt:
                        args[an] = {'ra': S.pick(ann_results), 'i': S.randint(0, 20)}
                        break
            rh = f'R{nres}'
            nres += 1
            events.append({'act': 'call', 'client': client, 'op': name, 'args': args, 'out': rh,
                           'twin_first': S.coin(0.5), 'pristine': S.coin(0.3),
                           'ref': 'pristine' if S.coin(0.04) else None})
            if any(e['act'] == 'owneredit' for e in events[-3:]):
                events[-1]['pristine'] = True     # the call right after the client edited its own object
            if 'owneredit' in faults and not OPS[name].lazy and S.coin(0.2):
                events[-1]['late_read'] = True     # the client edits its annotation before looking at the result
            if 'warnerr' in faults and not OPS[name].lazy and S.coin(0.35):
                events[-1]['warnerr'] = True       # the client runs with warnings turned into errors (-W error)
            W['results'][rh] = name
            calls += 1
            if OPS[name].lazy:
                if 'interleave' in faults or 'abandon' in faults:
                    open_lazy.append(rh)
                    if S.coin(0.5):
                        events.append({'act': 'step', 'client': client, 'lazy': rh})
                else:
                    events.append({'act': 'drain', 'client': client, 'lazy': rh})
        elif act == 'step':
            events.append({'act': 'step', 'client': client, 'lazy': S.pick(open_lazy)})
        elif act == 'drain':
            rh = S.pick(open_lazy)
            open_lazy.remove(rh)
            events.append({'act': 'drain', 'client': client, 'lazy': rh})
        elif act == 'close':
            rh = S.pick(open_lazy)
            open_lazy.remove(rh)
            events.append({'act': 'close', 'client': client, 'lazy': rh})
        elif act == 'scribble':
            events.append({'act': 'scribble', 'client': client, 'res': S.pick(sorted(W['results'])),
                           'k': S.randint(0, 1000)})
        elif act == 'rng':
            events.append({'act': 'rng', 'client': client, 'how': S.pick(['draw', 'seed']), 'n': S.randint(1, 99)})
        elif act == 'dbrefresh':
            events.append({'act': 'dbrefresh', 'client': client, 'db': S.pick(sorted(world.DB_FILES))})
    for rh in open_lazy:
        if S.coin(0.6):
            events.append({'act': 'drain', 'client': 0, 'lazy': rh})
    return {'header': header, 'pool': pool, 'events': events}


# ------------------------------------------------------------------------------------------ execution

def _coarse(path):
    """violation detail: the field path without indices"""
    import re
    p = path.split(':', 1)[0]
    p = re.sub(r'\[[^\]]*\]', '', p)
    return p.strip('.') or 'value'


class _Run:
    def __init__(self, plan):
        self.plan = plan
        self.out = Outcome()
        self.pool = {}
        self.results = {}     # rh -> {'val', 'event', 'op'}
        self.lazies = {}      # rh -> {'gen', 'twin_items', 'k', 'done', 'op', 'stepped_across'}
        self.calls_since = 0

    def snap_pool(self):
        return {h: N.norm(o) for h, o in self.pool.items()}

    def violation(self, invariant, op, detail, message, ev_i, snaps=None, extra=None):
        v = Violation(ID, invariant, op, detail, message, ev_i, extra).to_json()
        k = KNOWN.match(v)
        if k is None and ONLY and '/'.join((invariant, op, detail)) == ONLY:
            self.out.violation = v
            return True
        if k is None and (SURVEY or ONLY):
            k = {'id': 'SURVEY ' + '/'.join(str(x) for x in (invariant, op, detail)) + ' :: ' + message[:260]}
        if k is not None:
            self.out.known[k['id']] += 1
            if snaps is not None:
                self.restore(snaps)
            # a restore under a suspended computation changes what it will see: stop comparing open lazies
            for lz in self.lazies.values():
                lz['twin_items'] = None
            return False
        self.out.violation = v
        return True

    def restore(self, snaps):
        for h, s in snaps.items():
            if N.same(N.norm(self.pool[h]), s) is not None:
                world.restore(self.pool[h], s)

    def check_pool(self, snaps, invariant, opname, ev_i, exempt_handles=()):
        """every pool object must dump as before the event"""
        self.out.oracle_checks += 1
        for h, s in snaps.items():
            if h in exempt_handles:
                continue
            # 'was this very object changed': an emptied container turning into None (or back) counts
            now = N.norm(self.pool[h])
            d = N.same_strict(s, now, '')
            if d is None and _order_sig(s) != _order_sig(now):
                # same content, but the iteration order of a dictionary / of the residue-mod table / of the interval
                # list of the caller's object is not what it was: a client iterating it sees the difference
                d = f".order: {_order_sig(s)!r} != {_order_sig(now)!r}"[:300]
            if d is not None:
                kind = self.plan['pool'][h]['kind']
                if kind == 'nf':
                    kind = self.kind_of(h)
                detail = f"{kind}.{_coarse(d)}"
                if self.violation(invariant, opname, detail,
                                  f"{invariant}: pool object {h} ({kind}) changed across event {ev_i} ({opname}): {d}",
                                  ev_i, snaps, {'handle': h}):
                    return True
        return False

    def kind_of(self, h):
        return ''.join(c for c in h if not c.isdigit())


def _order_sig(nf, acc=None):
    """the stored order of every dictionary's keys, of the residue-mod table and of the interval list in a dump"""
    top = acc is None
    acc = [] if top else acc
    if isinstance(nf, list):
        if len(nf) == 2 and nf[0] == 'dict' and isinstance(nf[1], list):
            acc.append(tuple(json.dumps(kv[0], default=repr) for kv in nf[1] if isinstance(kv, list) and kv))
            for kv in nf[1]:
                if isinstance(kv, list) and len(kv) > 1:
                    _order_sig(kv[1], acc)
        elif len(nf) == 2 and nf[0] == 'ann' and isinstance(nf[1], dict):
            f = nf[1]
            acc.append(tuple(json.dumps(kv[0]) for kv in (f.get('internal') or [])))
            acc.append(tuple(json.dumps(iv[:2], default=repr) for iv in (f.get('intervals') or [])
                             if isinstance(iv, list)))
        else:
            for x in nf:
                _order_sig(x, acc)
    return tuple(acc) if top else None


def execute(plan):
    setup()
    base.check_poison_consistent(plan)
    if plan['header'].get('ambient'):
        # the ambient fault: the client runs with NON-default interpreter settings (cyclic collector switched off,
        # another recursion limit).  A library call that "restores" such a setting to its usual value instead of to
        # what it found shows as a change of the per-event fingerprint.  Put back at the end of the run.
        import gc
        import sys
        was = (gc.isenabled(), sys.getrecursionlimit())
        gc.disable()
        sys.setrecursionlimit(was[1] + 137)
        try:
            out = _execute(plan)
            out.faults['ambient'] += 1
            return out
        finally:
            sys.setrecursionlimit(was[1])
            if was[0]:
                gc.enable()
    return _execute(plan)


def _execute(plan):
    run = _Run(plan)
    out = run.out
    hdr = plan['header']
    random.seed(hdr.get('rng0', 12345))
    used = json.dumps(plan['events'])
    try:
        for h, entry in plan['pool'].items():
            if entry['kind'] == 'ann' or f'"{h}"' in used:
                run.pool[h] = world.build(entry, run.pool)
    except world.BuildMismatch as e:
        out.probes['build_mismatch'] += 1
        out.record(['build_mismatch', str(e)[:200]])
        return out
    except Exception as e:  # the library refused to build the object (e.g. the parser rejects it)
        out.probes['build_failed'] += 1
        out.record(['build_failed', N.norm_exc(e)])
        return out
    gref = G.cheap()
    shape = []
    touched = collections_counter()
    for ev_i, ev in enumerate(plan['events']):
        act = ev['act']
        out.events += 1
        shape.append(act if act != 'call' else ev['op'])
        stop = False
        if act == 'call':
            stop = _do_call(run, ev_i, ev, touched)
        elif act in ('step', 'drain', 'close'):
            stop = _do_lazy(run, ev_i, ev)
        elif act == 'scribble':
            stop = _do_scribble(run, ev_i, ev)
        elif act == 'owneredit':
            stop = _do_owner_edit(run, ev_i, ev)
        elif act == 'rng':
            if ev['how'] == 'draw':
                for _ in range(ev['n'] % 7 + 1):
                    random.random()
            else:
                random.seed(ev['n'])
            out.faults['rng'] += 1
        elif act == 'dbrefresh':
            name = ev['db']
            getattr(pt, name).reload_from_file(world.data_file(world.DB_FILES[name]))
            out.faults['dbrefresh'] += 1
            # content must be what it was (the refresh is neutral by construction)
            if glob.db_full([name])[name] != G.full_db0[name]:
                raise HarnessError(f"refresh of {name} from its bundled file changed its content")
        else:
            raise HarnessError(f"unknown act {act}")
        if stop:
            break
        out.states.add(sha([N.norm(o) for o in run.pool.values() if isinstance(o, pt.ProFormaAnnotation)]))
    # run boundary: full process-wide check (content hashes)
    if out.violation is None and (FULL_GLOBAL or out.faults.get('dbrefresh')):
        d = G.diff_full()
        if d is not None:
            run.violation('GLOBAL', 'run', d, f"GLOBAL: process-wide state {d} differs from its import-time content "
                                              f"at the end of the run", len(plan['events']) - 1)
    out.shape = sha(shape)
    out.nontrivial = any(c >= 2 for c in touched.values()) and out.oracle_checks > 0
    if hdr.get('poisoned'):
        pass
    return out


def collections_counter():
    import collections
    return collections.Counter()


def _resolve(run, args, twin, twin_cache, snaps):
    """resolve symbolic args to live values; twin=True builds fresh private twins from the snapshots"""
    out = {}
    for k, a in args.items():
        if 'h' in a:
            h = a['h']
            if h not in run.pool:
                return None
            if not twin:
                out[k] = run.pool[h]
            else:
                if h not in twin_cache:
                    twin_cache[h] = N.denorm(snaps[h])
                out[k] = twin_cache[h]
        elif 'v' in a:
            out[k] = copy.deepcopy(a['v'])
        elif 'nf' in a:
            out[k] = N.denorm(a['nf'])
        elif 'ra' in a:
            # an annotation that an EARLIER CALL RETURNED, passed back in; its private counterpart is an equal object
            # rebuilt from its dump (not a re-computation): hidden state that the result carries from the call that
            # produced it has no way into the rebuilt one
            r = run.results.get(a['ra'])
            obj = _ann_of(r['val'], a.get('i', 0)) if r is not None else None
            if obj is None:
                return None
            if not twin:
                out[k] = obj
            else:
                out[k] = N.denorm(N.norm_ann(obj))
        elif 'r' in a:
            r = run.results.get(a['r'])
            if r is None:
                return None
            if not twin:
                val = r['val']
            else:
                ck = ('r', a['r'])
                if ck not in twin_cache:
                    twin_cache[ck] = _twin_of_result(run, r, twin_cache, snaps)
                val = twin_cache[ck]
            if 'i' in a:
                if not isinstance(val, list) or not val:
                    return None
                val = val[a['i'] % len(val)]
            out[k] = val
        else:
            raise HarnessError(f"bad arg {a}")
    return out


class _Skip(Exception):
    pass


def _ann_of(val, i):
    if isinstance(val, pt.ProFormaAnnotation):
        return val
    if isinstance(val, (list, tuple)):
        anns = [v for v in val if isinstance(v, pt.ProFormaAnnotation)]
        if anns:
            return anns[i % len(anns)]
    return None


def _twin_of_result(run, r, twin_cache, snaps):
    """the private counterpart of an earlier result = the same creating call re-run on fresh twins"""
    ev = r['ev']
    o = OPS[ev['op']]
    targs = _resolve(run, ev['args'], True, twin_cache, snaps)
    if targs is None:
        raise _Skip()
    st = random.getstate()
    try:
        return o.call(pt, targs)
    except Exception:
        raise _Skip()
    finally:
        random.setstate(st)


def _call(o, a):
    try:
        return True, o.call(pt, a)
    except Exception as e:  # the library's own errors are results, too
        return False, e


def _do_call(run, ev_i, ev, touched):
    out = run.out
    o = OPS[ev['op']]
    snaps = run.snap_pool()
    for a in ev['args'].values():
        if 'h' in a:
            touched[a['h']] += 1
    twin_cache = {}
    try:
        sargs = _resolve(run, ev['args'], False, None, snaps)
        targs = _resolve(run, ev['args'], True, twin_cache, snaps)
    except _Skip:
        out.record(['skip', ev_i])
        return False
    if sargs is None or targs is None:
        out.record(['skip', ev_i])
        return False
    ra_before = {an: (sargs[an], N.norm_ann(sargs[an])) for an, a in ev['args'].items() if 'ra' in a}
    if ra_before:
        out.probes['earlier_result_passed_back_in'] += 1
    if len(set(a['h'] for a in ev['args'].values() if 'h' in a)) < len([a for a in ev['args'].values() if 'h' in a]):
        out.faults['reuse'] += 1

    ref_pristine = (ev.get('ref') == 'pristine' and _PRISTINE is not None and not o.rng
                    and all(('h' in a or 'v' in a or 'nf' in a) for a in ev['args'].values()))

    def twin_eval():
        """the reference result, already dumped: (True, dump | list of item dumps) or (False, exception dump).
        Normally the same call on fresh twins in this process; for events flagged ref=pristine the reference comes
        from the pristine process instead and NOTHING extra is evaluated here - an in-process twin would itself fill
        (and thereby repair) a process-wide cache that the call under test is about to leave half-filled."""
        if ref_pristine:
            req = {'op': ev['op'], 'args': ev['args'], 'rng': 1234 + ev_i,
                   'snaps': {a['h']: snaps[a['h']] for a in ev['args'].values() if 'h' in a}}
            ans = _PRISTINE.eval(req)
            if ans[0] != 'ok':
                raise HarnessError(f"pristine evaluation failed: {ans}")
            out.probes['reference_from_pristine_process'] += 1
            nf = ans[1]
            if N.is_exc(nf):
                return False, nf
            if o.lazy:
                return True, nf[1]
            return True, nf
        st = random.getstate()
        random.seed(987654321 + ev_i)   # the fresh object is evaluated under another RNG state
        try:
            ok_, r = _call(o, targs)
            if ok_ and o.lazy:
                items = []
                try:
                    for it in r:
                        items.append(N.norm(it))
                        if len(items) > 5000:
                            break
                except Exception as e:
                    items.append(N.norm_exc(e))
                return ok_, items
            return ok_, (N.norm(r) if ok_ else N.norm_exc(r))
        finally:
            random.setstate(st)

    if ev.get('twin_first'):
        t_ok, t_res = twin_eval()
        out.probes['twin_first'] += 1
    g0 = G.cheap()
    warned = False
    if ev.get('warnerr') and not o.lazy:
        import warnings
        with warnings.catch_warnings():
            warnings.simplefilter('error')
            s_ok, s_res = _call(o, sargs)
        warned = (not s_ok) and isinstance(s_res, Warning)
    else:
        s_ok, s_res = _call(o, sargs)
    g1 = G.cheap()
    # dump the result at once: later restores / scribbles must not leak into what is compared
    late = bool(ev.get('late_read')) and s_ok and not o.lazy and not o.exempt
    if late:
        # ... except for a late read: the client first edits the annotation(s) it passed in (in place, its own
        # objects), only then looks at what it was given, and puts the annotations back.  What the result shows must
        # be what was computed for the annotation as it was at the call (Fragment.parent_sequence, the documented
        # back-reference, is left out of the comparison).
        edited = []
        for a_ in ev['args'].values():
            h_ = a_.get('h')
            if h_ and h_[0] == 'A' and h_ not in edited and isinstance(run.pool.get(h_), pt.ProFormaAnnotation):
                if _owner_edit_other(run.pool[h_], ev_i + 3) is not None:
                    edited.append(h_)
        try:
            ns = _strip_parent(N.norm(s_res))
        finally:
            for h_ in edited:
                world.restore(run.pool[h_], snaps[h_])
        if edited:
            out.faults['late_read'] += 1
        else:
            late = False
    elif not (o.lazy and s_ok):
        ns = N.norm(s_res) if s_ok else N.norm_exc(s_res)
    if not ev.get('twin_first'):
        t_ok, t_res = twin_eval()
    if not s_ok:
        out.probes['call_raised'] += 1
        if run.plan['header'].get('poisoned'):
            out.faults['poison'] += 1
    # ---- GLOBAL
    out.oracle_checks += 1
    gd = glob.Globals.diff_cheap(g0, g1)
    if gd is not None and not (gd == 'random' and o.rng):
        if gd == 'random':
            random.setstate(g0[0])
        if run.violation('GLOBAL', ev['op'], gd, f"GLOBAL: call {ev['op']} disturbed process-wide state '{gd}'",
                         ev_i, None):
            return True
    # ---- ARG (also when the call raised)
    exempt = [ev['args'][an]['h'] for an in o.exempt if an in ev['args'] and 'h' in ev['args'][an]]
    if run.check_pool(snaps, 'ARG', ev['op'], ev_i, exempt):
        return True
    for an, (obj, nf0) in ra_before.items():
        if an in o.exempt:
            continue
        d = N.same(nf0, N.norm_ann(obj))
        if d is not None:
            if run.violation('ARG', ev['op'], 'result-arg.' + _coarse(d),
                             f"ARG: {ev['op']} changed the annotation it was given (an earlier result): {d}", ev_i, None):
                return True
    if exempt:
        # an explicit editor changed a shared object (legitimately): suspended computations and cached objects
        # bound to it may or may not see the edit - the property says nothing, so stop comparing them
        out.probes['explicit_editor_event'] += 1
        for lz in run.lazies.values():
            if any(a.get('h') in exempt for a in lz['ev']['args'].values()):
                lz['twin_items'] = None
        for rh in [rh for rh, r in run.results.items()
                   if any(a.get('h') in exempt for a in r['ev']['args'].values())]:
            del run.results[rh]
    # ---- HIST
    if o.lazy and s_ok:
        run.lazies[ev['out']] = {'gen': s_res, 'twin_ok': t_ok, 'twin_items': t_res if t_ok else None, 'k': 0,
                                 'done': False, 'op': ev['op'], 'calls_at_open': run.calls_since, 'ev': ev}
        run.results[ev['out']] = {'val': None, 'ev': ev, 'op': ev['op']}
        if t_ok and _pristine_check(run, ev_i, ev, o, snaps, ['list', t_res]):
            return True
        if not t_ok:
            if run.violation('HIST', ev['op'], 'raises',
                             f"HIST: {ev['op']} returned a lazy result on the shared object but raised "
                             f"{t_res} on a fresh twin", ev_i, None):
                return True
        out.record([ev_i, 'lazy-open'])
        run.calls_since += 1
        return False
    if o.lazy and not s_ok:
        nt = ['exc', 'NoError', ''] if t_ok else t_res
    else:
        nt = t_res
    if warned:
        # the call was cut short by a warning raised as an error (a crash point inside the call): arguments and
        # process-wide state were checked above; there is no result to compare
        out.faults['warnerr'] += 1
        out.record([ev_i, 'warned', ns])
        run.calls_since += 1
        return False
    out.record([ev_i, ns if not o.rng else 'rng'])
    if late:
        nt = _strip_parent(nt)
    if not o.rng:
        out.oracle_checks += 1
        d = N.same(ns, nt, '')
        if d is not None:
            if run.violation('HIST', ev['op'], _coarse(d),
                             f"HIST: {ev['op']} on the shared object after {ev_i} earlier events differs from the same "
                             f"call on a fresh twin: {d}", ev_i, None, {'shared': _clip(ns), 'fresh': _clip(nt)}):
                return True
    if not late and _pristine_check(run, ev_i, ev, o, snaps, ns):
        return True
    run.results[ev['out']] = {'val': s_res if s_ok else None, 'ev': ev, 'op': ev['op']}
    run.calls_since += 1
    return False


def _retyped(v):
    """the same number in the other numeric type (-18.0 <-> -18), or None"""
    if isinstance(v, bool):
        return None
    if isinstance(v, float) and v == int(v) and abs(v) < 1e9:
        return int(v)
    if isinstance(v, int):
        return float(v)
    return None


def _owner_edit(obj, k, only=None):
    """an in-domain, in-place edit of a caller-owned list / dict / config object; returns a description or None"""
    how = _owner_retype(obj) if k % 5 == 4 else None
    if how is not None or only == 'retype':
        return how
    return _owner_edit_other(obj, k)


def _owner_retype(obj):
    if True:
        # equal-but-differently-typed: the client now writes -18 where it wrote -18.0 (same value, same hash)
        if isinstance(obj, list):
            for i, el in enumerate(obj):
                if isinstance(el, (tuple, list)):
                    new = [(_retyped(x) if _retyped(x) is not None else x) for x in el]
                    if any(type(a) is not type(b) for a, b in zip(new, el)):
                        obj[i] = tuple(new) if isinstance(el, tuple) else new
                        return 'list.element-retyped'
                elif isinstance(el, pt.Mod) and _retyped(el.val) is not None:
                    el.val = _retyped(el.val)
                    return 'list.mod.val-retyped'
                elif _retyped(el) is not None:
                    obj[i] = _retyped(el)
                    return 'list.element-retyped'
        elif isinstance(obj, dict):
            for key, v in obj.items():
                if _retyped(v) is not None:
                    obj[key] = _retyped(v)
                    return 'dict.value-retyped'
        elif isinstance(obj, pt.ProFormaAnnotation):
            for node in N.mutable_nodes(obj).values():
                if isinstance(node, pt.Mod) and _retyped(node.val) is not None:
                    node.val = _retyped(node.val)
                    return 'ann:mod.val-retyped'
    return None


def _owner_edit_other(obj, k):
    if isinstance(obj, list) and obj:
        how = k % 4
        if how == 0:
            obj.append(copy.deepcopy(obj[0]))
            return 'list.append-copy-of-first'
        if how == 1 and len(obj) > 1:
            del obj[-1]
            return 'list.del-last'
        if how == 2 and len(obj) > 1:
            obj.reverse()
            return 'list.reverse'
        obj[0] = copy.deepcopy(obj[-1])
        return 'list.first=last'
    if isinstance(obj, dict) and obj:
        how = k % 3
        first = next(iter(obj))
        if how == 0 and isinstance(obj[first], (int, float)) and not isinstance(obj[first], bool):
            obj[first] = obj[first] + 1
            return 'dict.value+1'
        if how == 1 and len(obj) > 1:
            obj.pop(list(obj)[-1])
            return 'dict.pop-last'
        obj[first] = obj.pop(first)
        return 'dict.first-moved-to-end'
    if isinstance(obj, pt.EnzymeConfig):
        if k % 2 and isinstance(obj.regex, list) and obj.regex:
            # the rules themselves: another protease in place of the first one (edited in the list the config holds)
            obj.regex[0] = 'asp-n' if obj.regex[0] != 'asp-n' else 'lys-c'
            return 'enzcfg.regex[0]-replaced'
        obj.missed_cleavages = (obj.missed_cleavages or 0) + 1
        return 'enzcfg.missed_cleavages+1'
    if isinstance(obj, pt.ProFormaAnnotation):
        # the owner reaches into its annotation through the field accessors (references by design) and edits a
        # container or a Mod in place - no setter, no add_*/pop_* method is involved
        nodes = [v for v in N.mutable_nodes(obj).values() if v is not obj and not isinstance(v, pt.Interval)]
        nodes = [v for v in nodes if not isinstance(v, (list, dict)) or v]
        if not nodes:
            return None
        node = nodes[k % len(nodes)]
        if isinstance(node, pt.Mod):
            node.mult = node.mult + 1
            return 'ann:mod.mult+1'
        if isinstance(node, list):
            if (k // 7) % 2 and len(node) > 1:
                del node[-1]
                return 'ann:list.del-last'
            node.append(copy.deepcopy(node[0]))
            return 'ann:list.append-copy-of-first'
        if isinstance(node, dict):
            first = next(iter(node))
            if (k // 7) % 2 and len(node) > 1:
                node.pop(list(node)[-1])
                return 'ann:dict.pop-last'
            node[first] = node.pop(first)
            return 'ann:dict.first-moved-to-end'
    return None


def _do_owner_edit(run, ev_i, ev):
    out = run.out
    h = ev['h']
    obj = run.pool.get(h)
    how = _owner_edit(obj, ev['k'], ev.get('only')) if obj is not None else None
    if how is None:
        out.record([ev_i, 'noop'])
        return False
    out.faults['owneredit'] += 1
    out.record([ev_i, 'owneredit', how])
    # suspended computations and results bound to the edited object may or may not see the edit: stop comparing them
    for lz in run.lazies.values():
        if any(a.get('h') == h for a in lz['ev']['args'].values()):
            lz['twin_items'] = None
    for rh in [rh for rh, r in run.results.items() if any(a.get('h') == h for a in r['ev']['args'].values())]:
        del run.results[rh]
    return False


def _strip_parent(nf):
    if isinstance(nf, list):
        if len(nf) == 2 and nf[0] == 'frag' and isinstance(nf[1], dict):
            return ['frag', {k: v for k, v in nf[1].items() if k != 'parent_sequence'}]
        return [_strip_parent(x) for x in nf]
    if isinstance(nf, dict):
        return {k: _strip_parent(v) for k, v in nf.items()}
    return nf


def _pristine_check(run, ev_i, ev, o, snaps, here):
    """compare what this process computed (`here`: the dump of the result, for a lazy result the eagerly consumed
    twin) with the same call on fresh objects in the pristine process"""
    out = run.out
    if not (ev.get('pristine') and _PRISTINE is not None and not o.rng
            and all(('h' in a or 'v' in a or 'nf' in a) for a in ev['args'].values())):
        return False
    req = {'op': ev['op'], 'args': ev['args'], 'rng': 1234 + ev_i,
           'snaps': {a['h']: snaps[a['h']] for a in ev['args'].values() if 'h' in a}}
    ans = _PRISTINE.eval(req)
    if ans[0] != 'ok':
        raise HarnessError(f"pristine evaluation failed: {ans}")
    out.oracle_checks += 1
    out.probes['pristine_process_comparisons'] += 1
    d = N.same(here, ans[1], '')
    if d is not None:
        return run.violation('PRISTINE', ev['op'], _coarse(d),
                             f"PRISTINE: {ev['op']} in this process (after {ev_i} earlier events of this run and the runs "
                             f"before it in this worker) differs from the same call on fresh objects in a process that "
                             f"has executed nothing since import: {d}", ev_i, None,
                             {'here': _clip(here), 'pristine': _clip(ans[1])})
    return False


def _clip(nf, n=600):
    s = json.dumps(nf, default=repr)
    return s if len(s) <= n else s[:n] + '...'


def _do_lazy(run, ev_i, ev):
    out = run.out
    lz = run.lazies.get(ev['lazy'])
    if lz is None or lz['done']:
        out.record([ev_i, 'noop'])
        return False
    act = ev['act']
    snaps = run.snap_pool()
    opname = lz['op']
    if act == 'close':
        g0 = G.cheap()
        try:
            lz['gen'].close()
        except Exception as e:
            out.record([ev_i, N.norm_exc(e)])
        lz['done'] = True
        out.faults['abandon'] += 1
        if lz['k'] > 0:
            out.probes['abandoned_after_first_item'] += 1
        out.record([ev_i, 'closed', lz['k']])
        gd = glob.Globals.diff_cheap(g0, G.cheap())
        if gd is not None:
            if run.violation('GLOBAL', opname, gd, f"GLOBAL: closing lazy {opname} disturbed '{gd}'", ev_i, None):
                return True
        return run.check_pool(snaps, 'ARG', opname, ev_i)
    budget = 1 if act == 'step' else 100000
    if run.calls_since > lz['calls_at_open'] and lz['k'] > 0:
        out.faults['interleave'] += 1
        out.probes['lazy_stepped_across_a_call'] += 1
    while budget > 0 and not lz['done']:
        budget -= 1
        g0 = G.cheap()
        try:
            item = next(lz['gen'])
            ni = N.norm(item)
        except StopIteration:
            lz['done'] = True
            ni = ['stop']
        except Exception as e:
            lz['done'] = True
            ni = N.norm_exc(e)
        gd = glob.Globals.diff_cheap(g0, G.cheap())
        if gd is not None:
            if gd == 'random':
                random.setstate(g0[0])
            if run.violation('GLOBAL', opname, gd, f"GLOBAL: stepping lazy {opname} disturbed '{gd}'", ev_i, None):
                return True
        out.record([ev_i, lz['k'], ni])
        # items the client keeps: they must not change when later items are produced, and they must not share
        # mutable state with each other (checked by scribbling on the newest one)
        kept = lz.setdefault('kept', [])
        for (k0, obj0, nf0) in kept:
            if N.same(nf0, N.norm(obj0)) is not None:
                d0 = N.same(nf0, N.norm(obj0))
                lz['kept'] = kept = []
                if run.violation('ALIAS', opname, 'kept-item',
                                 f"ALIAS: item {k0} of lazy {opname}, kept by the client, changed when item {lz['k']} "
                                 f"was produced: {d0}", ev_i, None):
                    return True
                break
        if not lz['done'] and ni != ['stop'] and not N.is_exc(ni) and N.mutable_nodes(item):
            kept.append((lz['k'], item, ni))
            if len(kept) > 4:
                del kept[0]
            if len(kept) >= 2 and ev.get('act') == 'drain' and lz['k'] % 3 == 1:
                how = world.scribble(item, 7 * lz['k'], [x[1] for x in kept[:-1]])
                if how:
                    out.faults['scribble'] += 1
                    kept.pop()      # the client edited this one itself
                    for (k0, obj0, nf0) in kept:
                        d0 = N.same(nf0, N.norm(obj0))
                        if d0 is not None:
                            lz['kept'] = []
                            if run.violation('ALIAS', opname, 'sibling-items',
                                             f"ALIAS: editing item {lz['k']} of lazy {opname} changed item {k0} of the "
                                             f"same result: {d0}", ev_i, None):
                                return True
                            break
                    if run.check_pool(snaps, 'ALIAS', opname, ev_i):
                        return True
        if lz['twin_items'] is not None:
            out.oracle_checks += 1
            exp = lz['twin_items'][lz['k']] if lz['k'] < len(lz['twin_items']) else ['stop']
            d = N.same(ni, exp, '')
            if d is not None:
                if run.violation('LAZY', opname, _coarse(d),
                                 f"LAZY: item {lz['k']} of lazy {opname}, consumed at the client's pace, differs from "
                                 f"eager consumption on a fresh twin: {d}", ev_i, None,
                                 {'shared': _clip(ni), 'fresh': _clip(exp)}):
                    return True
        lz['k'] += 1
        if run.check_pool(snaps, 'ARG', opname, ev_i):
            return True
    return False


def _do_scribble(run, ev_i, ev):
    out = run.out
    r = run.results.get(ev['res'])
    if r is None or r['val'] is None:
        out.record([ev_i, 'noop'])
        return False
    if OPS[r['op']].accessor:
        return False
    snaps = run.snap_pool()
    g0 = G.cheap()
    deep = ev['k'] % 3 == 0 and isinstance(r['val'], (dict, list, set, tuple))   # content hash: a third of the
    c0 = glob.const_full() if deep else None                                      # container-valued results
    how = world.scribble(r['val'], ev['k'], list(run.pool.values()))
    out.record([ev_i, 'scribble', how])
    if how is None:
        return False
    # a returned value must not be (part of) a process-wide table either: editing it must leave the vocabularies and
    # the module-level constant tables alone
    gd = glob.Globals.diff_cheap(g0, G.cheap())
    if gd is None and deep:
        c1 = glob.const_full()
        gd = next((k for k in c1 if c1[k] != c0.get(k)), None)
    if gd is not None:
        if run.violation('ALIAS', r['op'], 'process-wide:' + gd,
                         f"ALIAS: editing the value returned by {r['op']} changed the process-wide table '{gd}' - the "
                         f"result shares mutable state with it", ev_i, None):
            return True
    out.faults['scribble'] += 1
    del run.results[ev['res']]    # the client edited its own result: it no longer equals a re-computation
    # ... and a suspended computation that was given this result as its argument may or may not see the edit
    for lz in run.lazies.values():
        if any(a.get('ra') == ev['res'] for a in lz['ev']['args'].values()):
            lz['twin_items'] = None
    if how.endswith('/aimed'):
        out.probes['scribble_on_node_shared_with_argument'] += 1
    return run.check_pool(snaps, 'ALIAS', r['op'], ev_i)


# ------------------------------------------------------------------------------------------ shrinking

def shrink_candidates(plan):
    """simpler plans: simpler Specs, literal arguments replaced by defaults"""
    for h, entry in plan['pool'].items():
        if entry['kind'] not in ('ann', 'str', 'frags', 'fmatches'):
            continue
        sp = entry['spec']
        for cand in _spec_shrinks(sp):
            p2 = copy.deepcopy(plan)
            p2['pool'][h]['spec'] = cand
            if entry['kind'] == 'ann' and 'S0' in p2['pool'] and h == 'A0':
                p2['pool']['S0']['spec'] = cand
            yield p2
    for i, ev in enumerate(plan['events']):
        if ev['act'] != 'call':
            continue
        for an, av in ev['args'].items():
            if an in ('size', 'max_mods'):
                continue          # None means "all" there: another (and explosive) question
            if 'v' in av and av['v'] not in (None, False, 0, 1):
                # a seed stays a seed: seed=None is the UNSEEDED call, which legitimately uses the caller's generator
                for simple in ((0, 1) if an == 'seed' else (None, False, 0, 1)):
                    p2 = copy.deepcopy(plan)
                    p2['events'][i]['args'][an] = {'v': simple}
                    yield p2


def _spec_shrinks(sp):
    for f in ('labile', 'static', 'isotope', 'unknown', 'nterm', 'cterm', 'intervals'):
        if sp[f]:
            c = copy.deepcopy(sp)
            c[f] = []
            yield c
            if len(sp[f]) > 1:
                for i in range(len(sp[f])):
                    c = copy.deepcopy(sp)
                    del c[f][i]
                    yield c
    if sp['charge'] is not None:
        c = copy.deepcopy(sp)
        c['charge'] = None
        c['adducts'] = None
        yield c
    if sp['adducts']:
        c = copy.deepcopy(sp)
        c['adducts'] = None
        yield c
    for k in list(sp['internal']):
        c = copy.deepcopy(sp)
        del c['internal'][k]
        yield c
        if len(sp['internal'][k]) > 1:
            c = copy.deepcopy(sp)
            c['internal'][k] = c['internal'][k][:1]
            yield c
    # shorten the residue string from the right, then from the left (keeping indices valid)
    n = len(sp['seq'])
    if n > 1:
        c = copy.deepcopy(sp)
        c['seq'] = c['seq'][:-1]
        c['internal'] = {k: v for k, v in c['internal'].items() if int(k) < n - 1}
        c['intervals'] = [iv for iv in c['intervals'] if iv[1] <= n - 1]
        yield c
        c = copy.deepcopy(sp)
        c['seq'] = c['seq'][1:]
        c['internal'] = {str(int(k) - 1): v for k, v in c['internal'].items() if int(k) >= 1}
        c['intervals'] = [[iv[0] - 1, iv[1] - 1, iv[2], iv[3]] for iv in c['intervals'] if iv[0] >= 1]
        yield c
    # simpler values
    for f in ('labile', 'unknown', 'nterm', 'cterm'):
        for i, m in enumerate(sp[f]):
            if m != [1, 1]:
                c = copy.deepcopy(sp)
                c[f][i] = [1, 1]
                yield c
    for k, ms in sp['internal'].items():
        for i, m in enumerate(ms):
            if m != [1, 1]:
                c = copy.deepcopy(sp)
                c['internal'][k][i] = [1, 1]
                yield c


# ------------------------------------------------------------------------------------------ evidence metadata

CHUNK = 200
RULE = (f"catalogue of {len(OPS)} ops ({len(OPS) - len(catalog.EDITORS)} queries + {len(catalog.EDITORS)} explicit editors). Run index i < n*n*3 (quick; n*n*5 thorough): "
        "systematic family - ordered pair (op_a, op_b) applied by two clients to one shared all-features annotation (3 of 5 fixed "
        "Specs per pair in the quick tier, rotating; all 5 in the thorough tier); next n*5*3: poison sweep - every op once on every fixed Spec with one unresolvable modification at the first "
        "residue / last residue / C-terminus, followed by a mass call; next q*5*2: sandwich - query, explicit editor, the same "
        "query again; next l*q*2: lazy pairs - a lazy result advanced by one item, another client's query (also evaluated in "
        "the pristine process), the lazy result drained or abandoned, the query again (second pass in cold processes); next l*8: same-call - two clients make "
        "the same lazy call on one object / on two unrelated objects of equal length and consume interleaved, the later "
        "overtaking the earlier, in a cold process; next n: long - every op once, twice in a row, on a protein-sized "
        "(520-1100 residues) shared annotation in a cold process; next q*5: retype - a query, the client rewrites the "
        "numbers in the objects it passed in the other numeric type (equal value, equal hash), the same query again, "
        "compared with the pristine process; other indices (every 8th in a cold process): seeded random history of 2-12 catalogue calls by 1-3 clients on 1-4 shared generated "
        "annotations plus shared list/dict arguments, with interleaved single steps / abandonment of lazy results, scribbles "
        "on returned values, RNG use, vocabulary refresh, poisoned modifications, in-place edits by the client of its own "
        "list/dict arguments between calls, calls under warnings-as-errors, per-run swarm switches; ~5% of the calls "
        "are also evaluated in a pristine forked process. Distinct = distinct sequence of (event kind | op name); non-trivial "
        "= some shared pool object was passed to at least two calls and at least one oracle comparison ran.")
EXPECTED_PROBES = ['twin_first', 'call_raised', 'lazy_stepped_across_a_call', 'abandoned_after_first_item',
                   'explicit_editor_event', 'pristine_process_comparisons', 'reference_from_pristine_process',
                   'earlier_result_passed_back_in']
_NOPS = len(OPS)
_NQ = len([o for o in OPS.values() if 'editor' not in o.tags])
_NL = len([o for o in OPS.values() if o.lazy])
STATE_MEASURE = 'dump of every shared annotation in the pool after the event'
FAMILY_STARTS = [0, _NOPS * _NOPS * 3, _NOPS * _NOPS * 3 + _NOPS * 15, _NOPS * _NOPS * 3 + _NOPS * 15 + _NQ * 10,
                 _NOPS * _NOPS * 3 + _NOPS * 15 + _NQ * 10 + _NL * _NQ * 2,
                 _NOPS * _NOPS * 3 + _NOPS * 15 + _NQ * 10 + _NL * _NQ * 2 + _NL * 8,
                 _NOPS * _NOPS * 3 + _NOPS * 15 + _NQ * 10 + _NL * _NQ * 2 + _NL * 8 + _NOPS,
                 _NOPS * _NOPS * 3 + _NOPS * 15 + _NQ * 10 + _NL * _NQ * 2 + _NL * 8 + _NOPS + _NQ * 5]
ASSUMPTIONS = [
    "field accessors (properties, has_*, get_internal_mods_by_index) and Fragment.parent_sequence are references into "
    "the object by design and are not treated as 'results' for the aliasing clause",
    "an empty modification list and None are the same observable state of an annotation field",
    "dict key order of RESULTS is not compared (a fresh twin may store the same content in another order); for the "
    "caller's own objects the stored order of dictionaries, of the residue-mod table and of the interval list is part "
    "of 'unchanged'",
    "functions named add_*/pop_* are explicit editors of their sequence argument (exempt from ARG on that argument only)",
    "the search samples histories; a clean batch is evidence, not proof",
]
STUB_NOTE = ""
