"""
C11 - Reordering and cutting a peptide moves modifications with their residues.

Simulated: a stateful history of reorder / cut operations (reverse, shift, shuffle, sort_residues, slice, split) on a
live annotation, each executed with inplace=True on the live object and with inplace=False on a private twin, against
a ModelPeptide.  The RNG that shuffle reads sits behind a seam: the scheduler decides the permutation it returns
(identity, reversal, rotation, a swap of two equal residues carrying different modifications, or uniform).  After
every event the live object must equal the model (so reverse twice, shift k then -k, shift by the length, slice of a
slice are checked as the identities they are), in-place and copying variants must agree, mass and the multiset of
modified residues must be invariant under permutation steps, slices must re-parse, and a sibling copy must stay
untouched.
"""
import copy
import random

from sim import norm as N, spec as SP, world
from sim.kernel import HarnessError, sha
from sim.model import ModelPeptide, _canon_mods
from sim.props import base
from sim.props.base import Env, RunBase

ID = 'C11'
CHUNK = 200
COLD_EVERY = 16      # restart fault: every 16th run executes in a process that has executed nothing since import
setup = base.setup
clean_start = base.clean_start
chunk_end_clean = base.chunk_end_clean
set_full_global = base.set_full_global
force_clean = base.force_clean

PERM_KINDS = ['identity', 'reverse', 'rotate', 'swap_equal', 'swap_equal', 'uniform', 'uniform']


# ------------------------------------------------------------------------------------------ RNG seam

class _SeamRng:
    def __init__(self, seam, seed):
        self.seam, self.seed_value = seam, seed

    def shuffle(self, lst):
        self.seam.apply(lst)

    def seed(self, s):
        self.seed_value = s

    def __getattr__(self, name):
        return getattr(random, name)


class Seam:
    """stands in for the name `random` inside peptacular.proforma.proforma_parser during one shuffle event"""

    def __init__(self):
        self.spec = None
        self.engaged = 0
        self.seeds = []

    def Random(self, seed=None):
        self.seeds.append(seed)
        return _SeamRng(self, seed)

    def seed(self, s=None):
        self.seeds.append(s)

    def shuffle(self, lst):
        self.apply(lst)

    def apply(self, lst):
        self.engaged += 1
        n = len(lst)
        kind, ps = self.spec['kind'], self.spec['seed']
        order = list(range(n))
        if kind == 'reverse':
            order.reverse()
        elif kind == 'rotate' and n:
            k = ps % n
            order = order[k:] + order[:k]
        elif kind == 'swap_equal':
            # two positions holding the same residue letter (elements are (letter, original_position) pairs)
            by = {}
            for i, el in enumerate(lst):
                key = el[0] if isinstance(el, tuple) else el
                by.setdefault(key, []).append(i)
            pairs = [v for v in by.values() if len(v) >= 2]
            if pairs:
                v = pairs[ps % len(pairs)]
                a, b = v[0], v[-1]
                order[a], order[b] = order[b], order[a]
            else:
                random.Random(ps).shuffle(order)
        elif kind == 'uniform':
            random.Random(ps).shuffle(order)
        lst[:] = [lst[i] for i in order]

    def __getattr__(self, name):
        return getattr(random, name)


# ------------------------------------------------------------------------------------------ plan generation

def gen_plan(S, index, tier):
    header = {'property': ID, 'seed': S.seed, 'index': index, 'tier': tier}
    with_intervals = S.coin(0.35)
    allow = [k for k in SP.LOCS if k != 'intervals' or with_intervals]
    cfg = SP.swarm_cfg(S, maxlen=S.pick([3, 6, 12, 25]), allow=allow, families=SP.MASSABLE)
    if with_intervals:
        cfg['p']['intervals'] = 0.9
    if S.coin(0.4):
        cfg['small_alpha'] = True      # repeated residues: equal letters carrying different modifications
    if S.coin(0.01):
        # beyond the stated bound (1..25), rarely: protein-sized input (whatever is written for 'short peptides' only -
        # packed indices, small-integer identities, recursion - meets a few hundred residues here)
        cfg['minlen'], cfg['maxlen'], cfg['density'] = 257, S.pick([300, 520]), 0.05
        cfg['small_alpha'] = False
        header['long'] = True
    sp = SP.gen_pep(S, cfg)
    faults = [f for f in ('rng', 'abandon') if S.coin(0.6)]
    objs = ['X0']
    sp_y = None
    if S.coin(0.35):
        # a second, unrelated live peptide worked on alternately (state shared between different objects)
        sp_y = SP.gen_pep(S, cfg)
        objs.append('Y0')
    pool = {'X0': {'kind': 'ann', 'via': S.pick(['parse', 'create']), 'spec': sp}}
    if pool['X0']['via'] == 'create':
        pool['X0']['order'] = SP.gen_order(S, sp)
    n0 = len(sp['seq'])
    events = []
    if S.coin(0.5):
        events.append({'act': 'sibling'})
    weights = {'reverse': 3, 'shift': 3, 'shuffle': 3, 'sort': 1.5, 'slice': 2.5, 'split': 2, 'slice2': 2,
               'strfn': 2, 'identity': 3, 'rngperturb': 1 if 'rng' in faults else 0}
    if with_intervals:
        weights.update({'reverse': 5, 'slice': 4, 'slice2': 3, 'shuffle': 1, 'sort': 0.7, 'shift': 2})
    if S.coin(0.4):
        for k in S.sample(sorted(weights), S.randint(1, 4)):
            weights[k] = 0
        if not any(weights.values()):
            weights['reverse'] = 1
    nops = S.randint(6, 20)
    L = max(1, n0)
    for _ in range(nops):
        kind = S.weighted([(k, w) for k, w in weights.items() if w > 0])
        if kind == 'reverse':
            events.append({'act': 'op', 'op': 'reverse', 'swap': S.coin(0.4)})
        elif kind == 'shift':
            events.append({'act': 'op', 'op': 'shift', 'n': S.randint(-2 * L, 2 * L), 'rel': S.pick([None, None, 'len', '-len', '0'])})
        elif kind == 'shuffle':
            seam = 'rng' in faults and S.coin(0.7)
            events.append({'act': 'op', 'op': 'shuffle', 'seed': S.randint(0, 10 ** 6) if S.coin(0.85) else None,
                           'seam': seam, 'perm': {'kind': S.pick(PERM_KINDS), 'seed': S.randint(0, 10 ** 6)}})
        elif kind == 'sort':
            events.append({'act': 'op', 'op': 'sort'})
        elif kind == 'slice':
            events.append({'act': 'op', 'op': 'slice', 'sel': S.randint(0, 10 ** 6), 'bias': S.pick(['any', 'edge', 'empty', 'full', 'any'])})
        elif kind == 'split':
            events.append({'act': 'split', 'take': S.pick([None, None, 0, 1, 2]) if 'abandon' in faults else None})
        elif kind == 'slice2':
            events.append({'act': 'slice2', 'sel': S.randint(0, 10 ** 6), 'sel2': S.randint(0, 10 ** 6)})
        elif kind == 'strfn':
            events.append({'act': 'strfn', 'fn': S.pick(['reverse', 'shift', 'shuffle', 'sort', 'span_to_sequence',
                                                          'split', 'count_residues']),
                           'n': S.randint(-2 * L, 2 * L), 'swap': S.coin(0.4), 'seed': S.randint(0, 999),
                           'sel': S.randint(0, 10 ** 6)})
        elif kind == 'identity':
            which = S.pick(['rev2', 'shift_k_minus_k', 'shift_len', 'shift_zero'])
            if which == 'rev2':
                sw = S.coin(0.4)
                events.append({'act': 'op', 'op': 'reverse', 'swap': sw, 'macro': 'rev2'})
                events.append({'act': 'op', 'op': 'reverse', 'swap': sw, 'macro': 'rev2'})
            elif which == 'shift_k_minus_k':
                k = S.randint(-2 * L, 2 * L)
                events.append({'act': 'op', 'op': 'shift', 'n': k, 'rel': None, 'macro': 'k-k'})
                events.append({'act': 'op', 'op': 'shift', 'n': -k, 'rel': None, 'macro': 'k-k'})
            elif which == 'shift_len':
                events.append({'act': 'op', 'op': 'shift', 'n': 0, 'rel': S.pick(['len', '-len', '2len']), 'macro': 'len'})
            else:
                events.append({'act': 'op', 'op': 'shift', 'n': 0, 'rel': '0', 'macro': 'zero'})
        elif kind == 'rngperturb':
            events.append({'act': 'rng', 'how': S.pick(['draw', 'seed']), 'n': S.randint(1, 99)})
    if sp_y is not None:
        pool['Y0'] = {'kind': 'ann', 'via': S.pick(['parse', 'create']), 'spec': sp_y}
        for ev in events:
            if ev['act'] in ('op', 'split', 'slice2', 'strfn') and not ev.get('macro'):
                ev['obj'] = S.pick(objs)
    header.update({'mode': 'random', 'faults': faults, 'with_intervals': with_intervals, 'maxlen': cfg['maxlen']})
    return {'header': header, 'pool': pool, 'events': events}


# ------------------------------------------------------------------------------------------ execution

OPEN_AFTER_PERM = ()          # fields the statement leaves open after a permutation step: interval positions only
OPEN_AFTER_SLICE = ('labile', 'unknown', 'charge', 'adducts')


def _valid_cuts(m):
    """positions that do not fall strictly inside an interval"""
    n = len(m)
    bad = set()
    for s, e, _, _ in m.intervals:
        for p in range(s + 1, e):
            bad.add(p)
    return [p for p in range(n + 1) if p not in bad]


def _pick_range(m, sel, bias):
    cuts = _valid_cuts(m)
    n = len(m)
    if bias == 'full':
        return 0, n
    if bias == 'empty':
        p = cuts[sel % len(cuts)]
        return p, p
    pairs = [(i, j) for a, i in enumerate(cuts) for j in cuts[a:]]
    if bias == 'edge':
        edges = set()
        for s, e, _, _ in m.intervals:
            edges.update((s, e))
        ep = [(i, j) for i, j in pairs if i in edges or j in edges or i == 0 or j == n]
        pairs = ep or pairs
    return pairs[sel % len(pairs)]


class _Run(RunBase):
    PID = ID

    def __init__(self, plan):
        super().__init__(plan)
        self.objs = {}       # handle -> {'x': live annotation, 'm': model}
        self.cur = 'X0'
        self.sib = None
        self.sib_nf = None
        self.macro_start = None

    @property
    def x(self):
        return self.objs[self.cur]['x']

    @property
    def m(self):
        return self.objs[self.cur]['m']

    @m.setter
    def m(self, value):
        self.objs[self.cur]['m'] = value

    def on_known(self):
        self.m = ModelPeptide.from_nf(N.norm_ann(self.x))

    def cmp_model(self, obj, model, what, op, ev_i, open_fields=(), open_intervals=False, adopt=False):
        """compare a live annotation with a model; fields listed as open are not judged (and adopted if asked)"""
        self.out.oracle_checks += 1
        cur = ModelPeptide.from_nf(N.norm_ann(obj))
        a, b = cur.canon(), model.canon()
        for k in a:
            if k in open_fields or (open_intervals and k == 'intervals'):
                continue
            if a[k] != b[k]:
                det = k
                x, y = a[k], b[k]
                if k == 'res':
                    for i, (p, q) in enumerate(zip(a[k], b[k])):
                        if p != q:
                            x, y = (i, p), (i, q)
                            break
                if self.violation('MODEL', op, det,
                                  f"MODEL: {what}: field {k}: library {x!r} != model {y!r} "
                                  f"(library {obj.serialize()!r})", ev_i):
                    return True
                return False
        if adopt:
            for k in open_fields:
                setattr(model, k if k != 'charge' else 'charge', getattr(cur, k))
            if open_intervals:
                model.intervals = cur.intervals
        return False


def _safe_mass(pt, x):
    try:
        return pt.mass(x)
    except Exception:
        return None


def _close(a, b):
    return abs(a - b) <= 1e-9 * max(1.0, abs(a), abs(b))


def execute(plan):
    setup()
    pt = Env.pt
    run = _Run(plan)
    out = run.out
    try:
        for h, entry in plan['pool'].items():
            if entry['kind'] == 'ann':
                run.objs[h] = {'x': world.build_ann(entry), 'm': ModelPeptide.from_spec(entry['spec'])}
    except world.BuildMismatch as e:
        out.probes['build_mismatch'] += 1
        out.record(['build_mismatch', str(e)[:200]])
        return out
    except Exception as e:
        out.probes['build_failed'] += 1
        out.record(['build_failed', N.norm_exc(e)])
        return out
    random.seed(plan['header'].get('seed', 1) % 1000003)
    shape = []
    g_start = Env.G.cheap()
    import peptacular.proforma.proforma_parser as PP
    for ev_i, ev in enumerate(plan['events']):
        out.events += 1
        shape.append(ev['act'] + ':' + str(ev.get('op') or ev.get('fn') or ''))
        stop = False
        act = ev['act']
        run.cur = ev.get('obj', 'X0') if ev.get('obj', 'X0') in run.objs else 'X0'
        others = {h: N.norm_ann(o['x']) for h, o in run.objs.items() if h != run.cur} if len(run.objs) > 1 else None
        if act == 'sibling':
            run.sib = run.x.copy()
            run.sib_nf = N.norm_ann(run.sib)
        elif act == 'rng':
            if ev['how'] == 'draw':
                for _ in range(ev['n'] % 7 + 1):
                    random.random()
            else:
                random.seed(ev['n'])
            out.faults['rng'] += 1
        elif act == 'op':
            stop = _do_op(run, ev_i, ev, PP)
        elif act == 'split':
            stop = _do_split(run, ev_i, ev)
        elif act == 'slice2':
            stop = _do_slice2(run, ev_i, ev)
        elif act == 'strfn':
            stop = _do_strfn(run, ev_i, ev, PP)
        else:
            raise HarnessError(act)
        if not stop and run.sib is not None:
            out.oracle_checks += 1
            d = N.same_strict(run.sib_nf, N.norm_ann(run.sib))
            if d is not None:
                stop = run.violation('INDEP', ev.get('op') or act, 'sibling', f"INDEP: a copy taken earlier changed "
                                                                              f"across event {ev_i}: {d}", ev_i)
                run.sib_nf = N.norm_ann(run.sib)
        if not stop and others:
            # the peptide that was NOT worked on is exactly as before
            for h, nf0 in others.items():
                out.oracle_checks += 1
                d = N.same_strict(nf0, N.norm_ann(run.objs[h]['x']))
                if d is not None:
                    stop = run.violation('INDEP', ev.get('op') or act, 'other-object',
                                         f"INDEP: event {ev_i} on {run.cur} changed the unrelated peptide {h}: {d}", ev_i)
                    break
            out.probes['two_live_peptides'] += 1
        if stop:
            break
        if not ev.get('macro'):
            run.macro_start = None
        out.record([ev_i, [N.norm_ann(o['x']) for o in run.objs.values()]])
        out.states.add(sha([o['m'].canon() for o in run.objs.values()]))
    out.shape = sha(shape)
    out.nontrivial = out.oracle_checks >= 3 and len(plan['events']) >= 2
    return out


def _with_seam(PP, ev, fn):
    """run fn() with the module's `random` replaced by the seam if the event asks for it"""
    if not ev.get('seam'):
        return fn(), None
    seam = Seam()
    seam.spec = ev['perm']
    real = PP.random
    PP.random = seam
    try:
        r = fn()
    finally:
        PP.random = real
    return r, seam


def _do_op(run, ev_i, ev, PP):
    pt = Env.pt
    out = run.out
    x, m = run.x, run.m
    op = ev['op']
    n = len(m)
    before_nf = N.norm_ann(x)
    twin = N.denorm(before_nf)
    mass0 = _safe_mass(pt, x)
    multiset0 = m.residue_multiset()
    counts0 = None
    plain = not (m.nterm or m.cterm or m.labile or m.unknown or m.intervals or
                 any('N-Term' in st[0] or 'C-Term' in st[0] for st in m.static))
    if plain:
        try:
            counts0 = dict(pt.count_residues(N.denorm(before_nf)))
        except Exception:
            counts0 = None
    g0 = random.getstate()
    if op == 'reverse':
        call_in = lambda: x.reverse(inplace=True, swap_terms=ev['swap'])
        call_cp = lambda: twin.reverse(inplace=False, swap_terms=ev['swap'])
        m.reverse(ev['swap'])
        open_iv = False
    elif op == 'shift':
        k = ev['n']
        if ev.get('rel') == 'len':
            k = n
        elif ev.get('rel') == '-len':
            k = -n
        elif ev.get('rel') == '2len':
            k = 2 * n
        elif ev.get('rel') == '0':
            k = 0
        if n == 0:
            return False
        call_in = lambda: x.shift(k, inplace=True)
        call_cp = lambda: twin.shift(k, inplace=False)
        m.shift(k)
        # identities are stated for intervals as well: shift by 0 / a multiple of the length must change nothing
        open_iv = (k % n) != 0
        if (k % n) == 0:
            out.probes['shift_by_multiple_of_length'] += 1
    elif op == 'shuffle':
        call_in = lambda: x.shuffle(ev['seed'], inplace=True)
        call_cp = lambda: twin.shuffle(ev['seed'], inplace=False)
        open_iv = True
    elif op == 'sort':
        call_in = lambda: x.sort_residues(inplace=True)
        call_cp = lambda: twin.sort_residues(inplace=False)
        open_iv = True
    elif op == 'slice':
        i, j = _pick_range(m, ev['sel'], ev['bias'])
        if i == j:
            return _empty_slice(run, ev_i, i, before_nf)
        call_in = lambda: x.slice(i, j, inplace=True)
        call_cp = lambda: twin.slice(i, j, inplace=False)
        run.m = m = m.slice(i, j)
        open_iv = False
        if i == j:
            out.probes['empty_slice'] += 1
        if any(s == j or e == i for s, e, _, _ in ModelPeptide.from_nf(before_nf).intervals):
            out.probes['slice_touching_interval_boundary'] += 1
    else:
        raise HarnessError(op)
    # ---- in place on the live object
    try:
        (r_in, seam1) = _with_seam(PP, ev, call_in)
    except Exception as e:
        run.on_known()
        return run.violation('RAISES', op, type(e).__name__, f"RAISES: {op} (inplace=True) raised {e!r} on "
                                                             f"{N.denorm(before_nf).serialize()!r}", ev_i)
    g1 = random.getstate()
    # ---- copying variant on the twin
    try:
        (r_cp, seam2) = _with_seam(PP, ev, call_cp)
    except Exception as e:
        run.on_known()
        return run.violation('RAISES', op, type(e).__name__, f"RAISES: {op} (inplace=False) raised {e!r}", ev_i)
    if seam1 is not None:
        out.faults['rng_seam'] += 1
        if seam1.engaged:
            out.probes['seam_engaged'] += 1
            out.probes['perm_' + ev['perm']['kind']] += 1
    unseeded_shuffle = op == 'shuffle' and ev['seed'] is None
    if unseeded_shuffle and not ev.get('seam'):
        out.probes['unseeded_shuffle_real_rng'] += 1
    # the caller's generator: a seeded operation must not disturb it
    if not unseeded_shuffle:
        out.oracle_checks += 1
        if g1 != g0:
            random.setstate(g0)
            if run.violation('GLOBAL', op, 'random', f"GLOBAL: {op} disturbed the caller's random generator", ev_i):
                return True
    if r_in is not None:
        if run.violation('MODEL', op, 'inplace-returns', f"MODEL: {op}(inplace=True) returned {r_in!r}", ev_i):
            return True
    # the twin itself must be untouched by the copying variant
    out.oracle_checks += 1
    d = N.same_strict(before_nf, N.norm_ann(twin))
    if d is not None:
        if run.violation('ARG', op, 'twin', f"ARG: {op}(inplace=False) changed the object it was called on: {d}", ev_i):
            return True
    # whether the copying variant hands back the operand itself (a no-op shortcut) is not C11's business - the
    # permutation it denotes is what is judged here; sharing between results and arguments is decided under C08,
    # whose catalogue calls the same methods and edits what they return.  Counted only.
    if r_cp is twin:
        out.probes['copy_variant_returned_its_operand'] += 1
    # ---- in-place and copying variants agree (a shuffle without seed is excepted: two draws)
    ill = False
    if open_iv and m.intervals:
        ill = not _well_formed(ModelPeptide.from_nf(N.norm_ann(x)))
    if not (unseeded_shuffle and not ev.get('seam')):
        out.oracle_checks += 1
        if not isinstance(r_cp, pt.ProFormaAnnotation):
            d = 'no annotation returned'
        elif ill:
            # overlapping / inverted intervals after a step that leaves interval positions open: compare the rest
            a_, b_ = ModelPeptide.from_nf(N.norm_ann(x)).canon(), ModelPeptide.from_nf(N.norm_ann(r_cp)).canon()
            d = next((f".{k}: {a_[k]!r} != {b_[k]!r}" for k in a_ if k != 'intervals' and a_[k] != b_[k]), None)
        else:
            d = N.same(N.norm_ann(x), N.norm_ann(r_cp))
        if d is not None:
            if run.violation('INPLACE', op, str(d).split(':')[0].strip('.').split('[')[0] or 'value',
                             f"INPLACE: {op} with inplace=True and inplace=False disagree: {d} "
                             f"(inplace {x.serialize()!r}, copy {r_cp.serialize() if hasattr(r_cp, 'serialize') else r_cp!r})", ev_i):
                return True
    # ---- against the model
    if op in ('shuffle', 'sort'):
        cur = ModelPeptide.from_nf(N.norm_ann(x))
        out.oracle_checks += 1
        if cur.residue_multiset() != multiset0:
            if run.violation('MODEL', op, 'multiset', f"MODEL: {op} changed the multiset of modified residues: "
                                                      f"{multiset0} -> {cur.residue_multiset()}", ev_i):
                return True
        if op == 'sort' and list(cur.seq) != sorted(cur.seq):
            if run.violation('MODEL', op, 'order', f"MODEL: sort_residues left {cur.seq!r} unsorted", ev_i):
                return True
        m.res = copy.deepcopy(cur.res)      # adopt the permutation the implementation chose
    what = f"after {op} (event {ev_i}) on {N.denorm(before_nf).serialize()!r}"
    if run.cmp_model(x, m, what, op, ev_i, open_fields=OPEN_AFTER_SLICE if op == 'slice' else (),
                     open_intervals=open_iv, adopt=True):
        return True
    # ---- permutation steps keep mass and the multiset of modified residues
    if op != 'slice':
        out.oracle_checks += 1
        if m.residue_multiset() != multiset0:
            if run.violation('MODEL', op, 'multiset', f"MODEL: {op} changed the multiset of modified residues", ev_i):
                return True
        mass1 = _safe_mass(pt, x)
        if mass0 is not None:
            out.probes['mass_invariance_checked'] += 1
            if mass1 is None or not _close(mass0, mass1):
                if run.violation('MASS', op, 'mass', f"MASS: {op} changed the mass {mass0!r} -> {mass1!r} ({what})", ev_i):
                    return True
        if counts0 is not None:
            try:
                c1 = dict(pt.count_residues(N.denorm(N.norm_ann(x))))
            except Exception as e:
                c1 = repr(e)
            out.probes['count_residues_checked'] += 1
            if c1 != counts0:
                if run.violation('MODEL', op, 'count_residues', f"MODEL: count_residues changed under {op}: {counts0} -> {c1}",
                                 ev_i):
                    return True
    else:
        # a non-empty slice re-parses
        if len(m) > 0:
            out.oracle_checks += 1
            try:
                back = pt.parse(x.serialize())
                d = N.same(N.norm(back), N.norm_ann(x))
            except Exception as e:
                d = f"raised {e!r}"
            if d is not None:
                if run.violation('REPARSE', 'slice', str(d).split(':')[0].strip('.').split('[')[0] or 'value',
                                 f"REPARSE: slice {x.serialize()!r} does not re-parse to itself: {d}", ev_i):
                    return True
            out.probes['slice_reparsed'] += 1
    if ev.get('macro'):
        out.probes['identity_macro_' + ev['macro']] += 1
        if ev['macro'] in ('k-k', 'rev2'):
            if run.macro_start is None:
                run.macro_start = before_nf
            else:
                out.oracle_checks += 1
                d = N.same(run.macro_start, N.norm_ann(x))
                start = run.macro_start
                run.macro_start = None
                if d is not None:
                    what2 = 'reverse twice' if ev['macro'] == 'rev2' else f"shift by {-ev['n']} then {ev['n']}"
                    if run.violation('IDENTITY', op, str(d).split(':')[0].strip('.').split('[')[0] or 'value',
                                     f"IDENTITY: {what2} is not the identity on {N.denorm(start).serialize()!r}: {d}",
                                     ev_i):
                        return True
    if not _well_formed(m):
        # shift / shuffle / sort leave interval positions open; when they left intervals that overlap or are
        # inverted the peptide is outside the property's quantifier: end the run here
        out.probes['run_ended_ill_formed_intervals'] += 1
        return 'end'
    return False


def _well_formed(m):
    n = len(m)
    last = 0
    for s, e, _, _ in sorted(m.intervals, key=lambda iv: (iv[0], iv[1])):
        if not (0 <= s < e <= n) or s < last:
            return False
        last = e
    return True


def _empty_slice(run, ev_i, i, before_nf):
    """an empty range contains no residue, no residue modification and no interval (checked on twins; the live
    object keeps its length: the property quantifies over peptides of length >= 1)"""
    out = run.out
    out.probes['empty_slice'] += 1
    exp = run.m.slice(i, i)
    for inplace in (False, True):
        t = N.denorm(before_nf)
        try:
            r = t.slice(i, i, inplace=inplace)
        except Exception as e:
            return run.violation('RAISES', 'slice', type(e).__name__, f"RAISES: slice({i},{i}) raised {e!r}", ev_i)
        obj = t if inplace else r
        if run.cmp_model(obj, exp, f"empty slice({i},{i}, inplace={inplace}) of {N.denorm(before_nf).serialize()!r}",
                         'slice', ev_i, open_fields=OPEN_AFTER_SLICE):
            return True
    return False


def _do_split(run, ev_i, ev):
    pt = Env.pt
    out = run.out
    x, m = run.x, run.m
    before = N.norm_ann(x)
    gen = x.split()
    pieces = []
    take = ev.get('take')
    try:
        for k, p in enumerate(gen):
            if take is not None and k >= take:
                gen.close()
                out.faults['abandon'] += 1
                break
            pieces.append(p)
    except Exception as e:
        return run.violation('RAISES', 'split', type(e).__name__, f"RAISES: split raised {e!r}", ev_i)
    out.oracle_checks += 1
    d = N.same_strict(before, N.norm_ann(x))
    if d is not None:
        if run.violation('ARG', 'split', str(d).split(':')[0].strip('.') or 'value',
                         f"ARG: split (taking {take if take is not None else 'all'} pieces) changed the peptide: {d}", ev_i):
            return True
    n = len(m)
    if take is None and len(pieces) != n:
        return run.violation('MODEL', 'split', 'count', f"MODEL: split gave {len(pieces)} pieces for {n} residues", ev_i)
    cuts = set(_valid_cuts(m))
    for k, p in enumerate(pieces):
        exp = m.slice(k, k + 1)
        # which piece carries the labile mods is left open; unknown / charge follow every piece; a piece cut out of
        # the inside of a longer interval is outside the statement (its ends fall strictly inside an interval)
        if run.cmp_model(p, exp, f"piece {k} of split of {x.serialize()!r}", 'split', ev_i,
                         open_fields=('labile', 'unknown', 'charge', 'adducts'),
                         open_intervals=not (k in cuts and k + 1 in cuts)):
            return True
    if take is None and n:
        # concatenation of the pieces reproduces the residues with their modifications
        out.oracle_checks += 1
        cat = []
        for p in pieces:
            pm = ModelPeptide.from_nf(N.norm_ann(p))
            cat.extend(pm.res)
        if [(r[0], _canon_mods(r[1])) for r in cat] != [(r[0], _canon_mods(r[1])) for r in m.res]:
            if run.violation('MODEL', 'split', 'concat', "MODEL: concatenating the pieces of split does not reproduce "
                                                         "the peptide", ev_i):
                return True
        out.probes['split_concat_checked'] += 1
    return False


def _do_slice2(run, ev_i, ev):
    """slice of a slice == slice of the sum of offsets (no state change)"""
    pt = Env.pt
    out = run.out
    m = run.m
    i, j = _pick_range(m, ev['sel'], 'any')
    inner = m.slice(i, j)
    k, l = _pick_range(inner, ev['sel2'], 'any')
    t1 = N.denorm(N.norm_ann(run.x))
    t2 = N.denorm(N.norm_ann(run.x))
    try:
        a = t1.slice(i, j).slice(k, l)
        b = t2.slice(i + k, i + l)
    except Exception as e:
        return run.violation('RAISES', 'slice', type(e).__name__, f"RAISES: slice raised {e!r}", ev_i)
    out.oracle_checks += 1
    d = N.same(N.norm_ann(a), N.norm_ann(b))
    if d is not None:
        if run.violation('COMPOSE', 'slice', str(d).split(':')[0].strip('.').split('[')[0] or 'value',
                         f"COMPOSE: slice({i},{j}).slice({k},{l}) != slice({i + k},{i + l}) of {run.x.serialize()!r}: {d}",
                         ev_i):
            return True
    exp = m.slice(i + k, i + l)
    out.probes['slice_composition_checked'] += 1
    return run.cmp_model(b, exp, f"slice({i + k},{i + l}) of {run.x.serialize()!r}", 'slice', ev_i,
                         open_fields=OPEN_AFTER_SLICE)


def _do_strfn(run, ev_i, ev, PP):
    """the string-level functions agree with the model (no state change: they get a twin)"""
    pt = Env.pt
    out = run.out
    m = run.m
    fn = ev['fn']
    nf = N.norm_ann(run.x)
    arg = N.denorm(nf) if ev['seed'] % 2 else N.denorm(nf).serialize()
    n = len(m)
    exp = m.clone()
    open_iv = False
    multiset_only = False
    try:
        if fn == 'reverse':
            s = pt.reverse(arg, swap_terms=ev['swap'])
            exp.reverse(ev['swap'])
        elif fn == 'shift':
            if n == 0:
                return False
            s = pt.shift(arg, ev['n'])
            exp.shift(ev['n'])
            open_iv = (ev['n'] % n) != 0
        elif fn == 'shuffle':
            s = pt.shuffle(arg, seed=ev['seed'])
            multiset_only = True
            open_iv = True
        elif fn == 'sort':
            s = pt.sort(arg)
            multiset_only = True
            open_iv = True
        elif fn == 'span_to_sequence':
            i, j = _pick_range(m, ev['sel'], 'any')
            s = pt.span_to_sequence(arg, (i, j, 0))
            exp = m.slice(i, j)
            if i == j:
                return False
        elif fn == 'split':
            parts = pt.split(arg)
            out.oracle_checks += 1
            if len(parts) != n:
                return run.violation('MODEL', 'pt.split', 'count', f"MODEL: pt.split gave {len(parts)} pieces for {n} residues", ev_i)
            cuts = set(_valid_cuts(m))
            for k, p in enumerate(parts):
                if not (k in cuts and k + 1 in cuts):
                    continue
                pm = pt.parse(p)
                if run.cmp_model(pm, m.slice(k, k + 1), f"piece {k} of pt.split", 'pt.split', ev_i,
                                 open_fields=('labile', 'unknown', 'charge', 'adducts')):
                    return True
            return False
        elif fn == 'count_residues':
            c = pt.count_residues(arg)
            out.oracle_checks += 1
            if sum(c.values()) != n:
                return run.violation('MODEL', 'pt.count_residues', 'total', f"MODEL: count_residues counts {sum(c.values())} residues of {n}", ev_i)
            return False
        else:
            raise HarnessError(fn)
    except HarnessError:
        raise
    except Exception as e:
        return run.violation('RAISES', 'pt.' + fn, type(e).__name__, f"RAISES: pt.{fn} raised {e!r}", ev_i)
    try:
        r = pt.parse(s)
    except Exception as e:
        if open_iv and m.intervals:
            out.probes['strfn_unparseable_with_open_intervals'] += 1
            return False     # interval positions after shift / shuffle / sort are left open, including ill-formed ones
        return run.violation('REPARSE', 'pt.' + fn, 'raises', f"REPARSE: result {s!r} of pt.{fn} does not parse: {e!r}", ev_i)
    if not isinstance(r, pt.ProFormaAnnotation):
        return False
    if multiset_only:
        cur = ModelPeptide.from_nf(N.norm_ann(r))
        out.oracle_checks += 1
        if cur.residue_multiset() != m.residue_multiset():
            return run.violation('MODEL', 'pt.' + fn, 'multiset', f"MODEL: pt.{fn} changed the multiset of modified residues", ev_i)
        exp.res = cur.res
    return run.cmp_model(r, exp, f"pt.{fn} of {N.denorm(nf).serialize()!r} -> {s!r}", 'pt.' + fn, ev_i,
                         open_fields=OPEN_AFTER_SLICE if fn == 'span_to_sequence' else (), open_intervals=open_iv)


# ------------------------------------------------------------------------------------------ shrinking

def shrink_candidates(plan):
    from sim.props.c08 import _spec_shrinks
    for h0 in [k for k, v in plan['pool'].items() if v['kind'] == 'ann']:
        for cand in _spec_shrinks(plan['pool'][h0]['spec']):
            p2 = copy.deepcopy(plan)
            p2['pool'][h0]['spec'] = cand
            yield p2
    for i, ev in enumerate(plan['events']):
        if ev.get('op') == 'shift' and ev.get('n') not in (0, 1, -1):
            for k in (1, -1, 0):
                p2 = copy.deepcopy(plan)
                p2['events'][i]['n'] = k
                yield p2
        if ev.get('seam'):
            p2 = copy.deepcopy(plan)
            p2['events'][i]['seam'] = False
            yield p2


RULE = ("seeded random history of 6-20 reorder / cut operations (reverse with/without swap_terms, shift by n in [-2L,2L] "
        "and by 0 / +-L / 2L, shuffle with a seam-chosen permutation or a plain seed, sort_residues, slice at positions "
        "not strictly inside an interval, split with optional abandonment, slice-of-slice composition, the string-level "
        "functions) on one generated annotation of length 1-25 (all modification kinds; intervals at start/middle/end "
        "in about a third of the runs), each op executed inplace=True on the live object and inplace=False on a twin. "
        "Distinct = distinct sequence of (event kind, op); non-trivial = at least two events and three oracle comparisons.")
EXPECTED_PROBES = ['two_live_peptides', 'seam_engaged', 'perm_swap_equal', 'mass_invariance_checked', 'slice_reparsed',
                   'slice_composition_checked', 'split_concat_checked', 'identity_macro_rev2', 'identity_macro_k-k',
                   'identity_macro_len', 'shift_by_multiple_of_length', 'slice_touching_interval_boundary',
                   'empty_slice', 'count_residues_checked']
ASSUMPTIONS = [
    "interval positions after shift (other than by a multiple of the length), shuffle and sort are left open by the "
    "statement: the model adopts the implementation's and only mass / multiset / identities constrain them",
    "labile, unknown-position, charge and adduct annotations of a slice are left open (adopted)",
    "the permutation a shuffle applies is not prescribed: only that it is a permutation keeping modifications on "
    "their residues, equal for inplace in {False, True} under the same seed",
    "the search samples histories; a clean batch is evidence, not proof",
]
STUB_NOTE = ("; the standard library's random generator is replaced by a scheduler-controlled stand-in during seam-"
             "enabled shuffle events (the library code itself runs unmodified)")
STATE_MEASURE = 'canonical form of the reference model of every live object after the event'
FAMILY_STARTS = [0]
