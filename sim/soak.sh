#!/bin/bash
# soak.sh <first-seed> <last-seed> [tier]: run every check under a range of VERIF_SEED values; print one line per run
cd "$(dirname "$0")/.."
TIER=${3:-quick}
for s in $(seq $1 $2); do
  for p in C04 C07 C08 C11 C20; do
    out=$(VERIF_SEED=$s VERIF_OUT=/tmp/pepsim-soak-$$ timeout 3000 /venv/bin/python sim/run.py check $p --tier $TIER 2>&1)
    rc=$?
    echo "SOAK seed=$s $p exit=$rc $(echo "$out" | grep -c '^VIOLATION') violations; $(echo "$out" | tail -1 | cut -c1-120)"
    if [ $rc -ne 0 ]; then echo "$out" | grep "violation class\|minimised to\|HARNESS" | cut -c1-600; fi
  done
done
rm -rf /tmp/pepsim-soak-$$
