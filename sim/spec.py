"""
spec.py - immutable, JSON-able descriptions ("Specs") of peptides and of the other argument kinds, their seeded
generator, the harness's own ProForma writer, and builders that turn a Spec into a live library object.

A PepSpec is a plain dict:
  seq       str
  labile, unknown, nterm, cterm : list of [value, mult]      (value: int | float | str, canonical)
  static    list of str  e.g. "[57.02]@C,N-Term"
  isotope   list of str  e.g. "13C"
  internal  dict  "index" -> list of [value, mult]
  intervals list of [start, end, ambiguous, list of [value, mult] | None], pairwise disjoint, sorted
  charge    int | None ; adducts  str | None (only with a charge)
"""

STD = "ACDEFGHIKLMNPQRSTVWY"
EXTRA = "UO"
RARE = "JX"

NUM_INT = [1, 2, 10, 57, -18, 100, -1, -2, 0]      # 0: a legal, falsy value
NUM_FLOAT = [3.1415, 15.9949, -17.026549, 79.966331, 0.984, 42.010565, -2.5, 0.0, -0.0]    # both float zeros
UNIMOD = ['Phospho', 'Oxidation', 'Acetyl', 'Carbamidomethyl', 'Methyl', 'Deamidated', 'Amidated']
ACC = ['UNIMOD:21', 'U:21', 'U:Phospho', 'MOD:00046', 'M:00046', 'XLMOD:02001', 'X:02001', 'UNIMOD:35', 'U:1']
FORMULA = ['Formula:C2H3O', 'Formula:[13C2]H4', 'Formula:[13C][15N]H4', 'Formula:C2H3O-1', 'Formula:H2O', 'Formula:CH2', 'Formula:CO', 'Formula:Co']
# values that differ only in letter case and mean something else (carbon monoxide / cobalt)
CASE_TWIN = {'Formula:CO': 'Formula:Co', 'Formula:Co': 'Formula:CO'}
# near-miss values: different modification values that a sloppy comparison takes for the same - letter case only;
# equal hash() in CPython (hash(-1) == hash(-2)); equal up to a float tolerance
VALUE_TWIN = dict(CASE_TWIN)
VALUE_TWIN.update({-1: -2, -2: -1, 15.9949: 15.995, 79.966331: 79.9663, 42.010565: 42.0105651,
                   9007199254740993: 9007199254740992})
GLYCAN = ['Glycan:Hex', 'Glycan:HexNAc2Hex3', 'Glycan:HexNAc', 'Glycan:Fuc1Hex1']
OBS = ['Obs:+12.5', 'Obs:-3.25', 'U:+15.99']
TAG = ['Phospho#g1', '#g1(0.5)', 'Oxidation#g2(0.9)']
ALT = ['Oxidation|INFO:x', 'Obs:+5.5|INFO:y', 'Acetyl|Obs:+42.01']
INFO = ['INFO:note']
POISON = ['NotAMod', 'UNIMOD:999999', 'Formula:Zz2', 'Glycan:Foo', 'Obs:abc', 'Glycan:hex', 'Glycan:Hexx2', 'phospho ', 'Formula:c2']   # incl. near-misses of real names

# integers a double cannot hold (2**53 + 1 ...): exact as Python ints, lossy through float()
BIGINT = [9007199254740993, -100000000000000003]
FAMILIES = {'bigint': BIGINT, 'poisonvals': POISON, 'int': NUM_INT, 'float': NUM_FLOAT, 'unimod': UNIMOD, 'acc': ACC, 'formula': FORMULA,
            'glycan': GLYCAN, 'obs': OBS, 'tag': TAG, 'alt': ALT, 'info': INFO}
MASSABLE = ['int', 'float', 'unimod', 'acc', 'formula', 'glycan', 'obs', 'tag', 'alt']
COMPABLE = ['unimod', 'acc', 'formula', 'glycan', 'tag']  # have an elemental composition
ISOTOPES = ['13C', '15N', '18O', '17O', '34S', 'D', 'T', '2H', '12C', '14N', '16O', '1H']   # heavy and light labels
ADDUCTS = ['+H+', '+Na+', '+2Na+,+H+', '+K+', '+2H+', '+Na+,+H+']

LOCS = ('labile', 'static', 'isotope', 'unknown', 'nterm', 'cterm', 'internal', 'intervals', 'charge')


def swarm_cfg(S, *, maxlen=25, minlen=1, allow=LOCS, families=None, all_features=0.35, rare=True):
    """Per-run swarm switches: which locations / value families are in play and how likely."""
    if S.coin(all_features):
        p = {k: 0.85 for k in allow}
    else:
        p = {k: (S.pick([0.0, 0.3, 0.6, 0.9])) for k in allow}
    for k in LOCS:
        p.setdefault(k, 0.0)
    fam_pool = list(families if families is not None else MASSABLE)
    k = S.randint(1, len(fam_pool))
    fams = S.sample(fam_pool, k)
    return {'maxlen': maxlen, 'minlen': minlen, 'p': p, 'families': sorted(fams), 'mult': S.pick([0.0, 0.2, 0.5]),
            'density': S.pick([0.1, 0.25, 0.5]), 'alphabet': STD + (EXTRA if S.coin(0.5) else '') +
            (RARE if rare and S.coin(0.15) else ''), 'small_alpha': S.coin(0.3)}


def gen_value(S, cfg):
    fam = S.pick(cfg['families'])
    return S.pick(FAMILIES[fam])


def gen_mod(S, cfg, mult_ok=True):
    m = 1
    if mult_ok and S.coin(cfg['mult']):
        m = S.randint(2, 3)
    return [gen_value(S, cfg), m]


def gen_mods(S, cfg, lo=1, hi=2, mult_ok=True):
    return [gen_mod(S, cfg, mult_ok) for _ in range(S.randint(lo, hi))]


def gen_pep(S, cfg, length=None):
    p = cfg['p']
    n = length if length is not None else S.randint(cfg['minlen'], cfg['maxlen'])
    alpha = cfg['alphabet']
    if cfg.get('small_alpha'):
        alpha = ''.join(S.sample(alpha, min(len(alpha), S.randint(2, 5))))
    seq = ''.join(S.pick(alpha) for _ in range(n))
    sp = {'seq': seq, 'labile': [], 'static': [], 'isotope': [], 'unknown': [], 'nterm': [], 'cterm': [],
          'internal': {}, 'intervals': [], 'charge': None, 'adducts': None}
    if S.coin(p['labile']):
        sp['labile'] = gen_mods(S, cfg)
    if S.coin(p['static']):
        for _ in range(S.randint(1, 2)):
            targets = []
            for _ in range(S.randint(1, 2)):
                t = S.pick(list(dict.fromkeys(seq)) + ['N-Term', 'C-Term']) if S.coin(0.85) else S.pick(STD)
                if t not in targets:
                    targets.append(t)
            mods = ''.join('[' + fmt_val(gen_value(S, cfg)) + ']' for _ in range(S.randint(1, 2)))
            sp['static'].append(mods + '@' + ','.join(targets))
    if S.coin(p['isotope']):
        sp['isotope'] = S.sample(ISOTOPES[:5], S.randint(1, 2)) if S.coin(0.8) else [S.pick(ISOTOPES)]
    if S.coin(p['unknown']):
        sp['unknown'] = gen_mods(S, cfg)
    if S.coin(p['nterm']):
        sp['nterm'] = gen_mods(S, cfg)
    if S.coin(p['cterm']):
        sp['cterm'] = gen_mods(S, cfg)
    if p['internal'] > 0 and S.coin(max(p['internal'], 0.3)):
        for i in range(n):
            if S.coin(cfg['density']):
                sp['internal'][str(i)] = gen_mods(S, cfg, 1, 3 if S.coin(0.2) else 1)
    if n >= 1 and S.coin(p['intervals']):
        sp['intervals'] = gen_intervals(S, cfg, n)
    if S.coin(p['charge']):
        sp['charge'] = S.pick([1, 2, 3, -1, -2, 4])
        if S.coin(0.3):
            sp['adducts'] = S.pick(ADDUCTS)
    return sp


def gen_intervals(S, cfg, n):
    """Disjoint intervals; biased to the start, the end, adjacency and length-1 intervals."""
    out = []
    pos = 0
    k = S.randint(1, 3)
    mode = S.pick(['start', 'end', 'any', 'any', 'adjacent', 'whole'])
    if mode == 'whole':
        return [[0, n, S.coin(0.3), gen_mods(S, cfg, 1, 2) if S.coin(0.8) else None]]
    if mode == 'end':
        s = S.randint(0, n - 1)
        return [[s, n, S.coin(0.3), gen_mods(S, cfg, 1, 2) if S.coin(0.8) else None]]
    for j in range(k):
        if pos >= n:
            break
        if mode == 'start' and j == 0:
            s = 0
        elif mode == 'adjacent' and j > 0:
            s = pos
        else:
            s = S.randint(pos, n - 1)
        e = S.randint(s + 1, min(n, s + 1 + S.pick([0, 0, 1, 2, 4])))
        out.append([s, e, S.coin(0.3), gen_mods(S, cfg, 1, 2) if S.coin(0.8) else None])
        pos = e
    return out


# ---------------------------------------------------------------- the harness's own ProForma writer

def fmt_val(v):
    if isinstance(v, float):
        return repr(v)
    return str(v)


def fmt_mod(m, br='[]'):
    s = br[0] + fmt_val(m[0]) + br[1]
    if m[1] > 1:
        s += '^' + str(m[1])
    return s


def render(sp):
    out = []
    for m in sp['labile']:
        out.append(fmt_mod(m, '{}'))
    for s in sp['static']:
        out.append('<' + s + '>')
    for s in sp['isotope']:
        out.append('<' + s + '>')
    if sp['unknown']:
        out.extend(fmt_mod(m) for m in sp['unknown'])
        out.append('?')
    if sp['nterm']:
        out.extend(fmt_mod(m) for m in sp['nterm'])
        out.append('-')
    starts = {iv[0]: iv for iv in sp['intervals']}
    ends = {iv[1]: iv for iv in sp['intervals']}
    for i, aa in enumerate(sp['seq']):
        if i in ends:
            out.append(')')
            out.extend(fmt_mod(m) for m in (ends[i][3] or []))
        if i in starts:
            out.append('(?' if starts[i][2] else '(')
        out.append(aa)
        for m in sp['internal'].get(str(i), []):
            out.append(fmt_mod(m))
    n = len(sp['seq'])
    if n in ends:
        out.append(')')
        out.extend(fmt_mod(m) for m in (ends[n][3] or []))
    if sp['cterm']:
        out.append('-')
        out.extend(fmt_mod(m) for m in sp['cterm'])
    if sp['charge'] is not None:
        out.append('/' + str(sp['charge']))
        if sp['adducts']:
            out.append('[' + sp['adducts'] + ']')
    return ''.join(out)


def _nfmods(ms):
    return [['mod', v, m] for v, m in ms] or None


def nf_of_spec(sp):
    """The dump (norm.py normal form) that a faithful build of the Spec must have."""
    internal = [[int(k), _nfmods(v)] for k, v in sorted(sp['internal'].items(), key=lambda kv: int(kv[0])) if v]
    ivs = [['interval', s, e, amb, _nfmods(ms) if ms else None] for s, e, amb, ms in sp['intervals']]
    return ['ann', {
        'seq': sp['seq'],
        'isotope': [['mod', s, 1] for s in sp['isotope']] or None,
        'static': [['mod', s, 1] for s in sp['static']] or None,
        'labile': _nfmods(sp['labile']),
        'unknown': _nfmods(sp['unknown']),
        'nterm': _nfmods(sp['nterm']),
        'cterm': _nfmods(sp['cterm']),
        'internal': internal or None,
        'intervals': ivs or None,
        'charge': sp['charge'],
        'adducts': [['mod', sp['adducts'], 1]] if sp['adducts'] else None,
    }]


def has_mods(sp):
    return bool(sp['labile'] or sp['static'] or sp['isotope'] or sp['unknown'] or sp['nterm'] or sp['cterm'] or
                sp['internal'] or sp['intervals'] or sp['charge'] is not None)


def poison(S, sp):
    """Place one unresolvable value at a scheduler-chosen position of a copy of the Spec. Returns (spec, where)."""
    import copy
    sp = copy.deepcopy(sp)
    val = S.pick(POISON)
    slots = ['nterm', 'cterm', 'labile'] + ['internal'] * 3
    where = S.pick(slots)
    if where == 'internal':
        i = S.randint(0, len(sp['seq']) - 1)
        sp['internal'].setdefault(str(i), []).append([val, 1])
        where = f'internal[{i}]'
    else:
        sp[where] = list(sp[where]) + [[val, 1]]
    return sp, where, val


def gen_order(S, sp):
    """A storage order for the interval list and the residue-mod dict of an annotation built through
    create_annotation: any order is a valid input (add_intervals / add_internal_mod in any order, reverse() leaves
    intervals descending). Returns None (ascending) half of the time."""
    if S.coin(0.5):
        return None
    order = {}
    if len(sp['intervals']) >= 2:
        idx = list(range(len(sp['intervals'])))
        order['intervals'] = list(reversed(idx)) if S.coin(0.6) else S.shuffled(idx)
    if len(sp['internal']) >= 2:
        keys = sorted(sp['internal'], key=int)
        order['internal'] = list(reversed(keys)) if S.coin(0.5) else S.shuffled(keys)
    return order or None
