"""findclass.py - development aid: find the first run that shows one given violation class (all other classes are
treated as known and restored), minimise it and store the replay under /verif/findings/.
usage: findclass.py <PID> <invariant/op/detail> <lo> <hi> [name]"""
import os, sys, json
sys.path.insert(0, os.path.dirname(os.path.dirname(os.path.abspath(__file__))))
pid, cls, lo, hi = sys.argv[1], sys.argv[2], int(sys.argv[3]), int(sys.argv[4])
name = sys.argv[5] if len(sys.argv) > 5 else cls.replace('/', '_').replace('.', '-')
os.environ['VERIF_ONLY'] = cls
from sim import boot
boot.ensure_hashseed()
from sim import kernel, registry
mod = registry.load(pid)
tot = kernel.run_batch(pid, [(0, i) for i in range(lo, hi)], 'quick', chunk=50, opts={'child_timeout': 900})
if not tot['violations']:
    print('class not seen in', tot['runs'], 'runs', tot['harness_errors'][:1])
    sys.exit(3)
v = min(tot['violations'], key=lambda x: len(x['plan']['events']))
vc = [v['violation'][k] for k in ('property', 'invariant', 'op', 'detail')]
small, v2, pre = kernel.minimise(pid, mod, v['plan'], vc, prefix=v.get('prefix'), budget_s=40)
small = dict(small, violation=v2)
if pre:
    small['prefix'] = pre
small['header'] = dict(small['header'], tree=boot.tree_id(), only_class=cls)
os.makedirs(os.path.join(boot.VERIF, 'findings'), exist_ok=True)
path = os.path.join(boot.VERIF, 'findings', f'{pid}-{name}.json')
kernel.write_json(path, small)
print(path, len(small['events']), 'events')
print(v2['message'][:500])
